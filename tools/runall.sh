#!/bin/sh
# tools/runall.sh [tier] -- run every registered check, print one summary line each
cd /verif
tier=${1:-quick}
for c in $(/venv/bin/python -c "import json; print(' '.join(x['property_id'] for x in json.load(open('MANIFEST.json'))['checks']))"); do
  s=$(date +%s)
  out=$(./check $c --tier $tier 2>&1); rc=$?
  e=$(date +%s)
  echo "$c rc=$rc $((e-s))s viol_lines=$(echo "$out" | grep -c '^VIOLATION') known_lines=$(echo "$out" | grep -c '^KNOWN-FINDING') :: $(echo "$out" | grep "^$c tier" | tail -1 | cut -d' ' -f4-)"
done
