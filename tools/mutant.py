#!/venv/bin/python
"""Scratch mutants of /repo for detection tests (never touches /repo itself).

  tools/mutant.py new NAME FILE OLD NEW [FILE OLD NEW ...]   -> prints worktree path
  tools/mutant.py patch NAME PATCHFILE
  tools/mutant.py rm NAME | rmall
Run a check against it:  EMG3D_SRC=/tmp/mut/NAME ./check Cxx
"""
import os
import shutil
import subprocess
import sys

BASE = '/tmp/mut'


def sh(*a, **k):
    return subprocess.run(a, check=True, **k)


def new(name):
    wt = os.path.join(BASE, name)
    if os.path.exists(wt):
        rm(name)
    os.makedirs(BASE, exist_ok=True)
    sh('git', '-C', '/repo', 'worktree', 'add', '-q', '--detach', wt)
    shutil.copy('/repo/emg3d/version.py', os.path.join(wt, 'emg3d'))
    return wt


def rm(name):
    wt = os.path.join(BASE, name)
    subprocess.run(['git', '-C', '/repo', 'worktree', 'remove', '--force', wt])
    shutil.rmtree(wt, ignore_errors=True)
    subprocess.run(['git', '-C', '/repo', 'worktree', 'prune'])


def main():
    cmd = sys.argv[1]
    if cmd == 'new':
        wt = new(sys.argv[2])
        args = sys.argv[3:]
        for i in range(0, len(args), 3):
            f, old, new_ = args[i:i+3]
            nth = None
            if '@' in f:          # FILE@N: replace the N-th occurrence (0..)
                f, nth = f.split('@')
                nth = int(nth)
            p = os.path.join(wt, f)
            s = open(p).read()
            if nth is None and s.count(old) != 1:
                rm(sys.argv[2])
                sys.exit(f"pattern occurs {s.count(old)} times in {f}")
            if nth is None:
                s = s.replace(old, new_)
            else:
                parts = s.split(old)
                if len(parts) <= nth+1:
                    rm(sys.argv[2])
                    sys.exit(f"only {len(parts)-1} occurrences in {f}")
                s = old.join(parts[:nth+1]) + new_ + old.join(parts[nth+1:])
            open(p, 'w').write(s)
        print(wt)
    elif cmd == 'patch':
        wt = new(sys.argv[2])
        pf = os.path.abspath(sys.argv[3])
        r = subprocess.run(['git', '-C', wt, 'apply', pf])
        if r.returncode != 0:
            # the patch was written against an earlier commit of /repo (a
            # later fix: commit touched the same lines): use its base commit
            import json
            meta = os.path.join(os.path.dirname(pf), 'meta.json')
            base = 'f840361'
            if os.path.exists(meta):
                base = json.load(open(meta)).get('base_commit', base)
            sh('git', '-C', wt, 'checkout', '-q', '--detach', base)
            sh('git', '-C', wt, 'apply', pf)
            print(f'(applied on base commit {base})', file=sys.stderr)
        print(wt)
    elif cmd == 'rm':
        rm(sys.argv[2])
    elif cmd == 'rmall':
        for n in os.listdir(BASE) if os.path.isdir(BASE) else []:
            rm(n)


if __name__ == '__main__':
    main()
