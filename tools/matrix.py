#!/venv/bin/python
"""Print the detection matrix (markdown) from /verif/seeded/*/meta.json."""
import glob
import json
import os

rows = []
for f in sorted(glob.glob('/verif/seeded/*/meta.json')):
    m = json.load(open(f))
    name = os.path.basename(os.path.dirname(f))
    c = m.get('confirmed', {})
    ok = (c.get('demo_on_repo', {}).get('rc') == 0 and
          c.get('demo_on_change', {}).get('rc') not in (0, None) and
          c.get('test_suite', {}).get('rc') == 0)
    det = []
    for k, v in m.get('checks', {}).items():
        cls = ', '.join(list(v.get('classes_in_output', {}))[:3])
        det.append(f"{k}: {'**caught**' if v['detected'] else 'missed'}"
                   + (f" ({cls})" if cls else ''))
    summ = (m.get('summary') or '').replace('\n', ' ').replace('|', '/')
    rows.append(f"| {name} | {summ[:160]} | {'yes' if ok else 'NO'} | "
                + '; '.join(det) + ' |')
print("| seed | change (by an independent sub-agent) | confirmed (tests pass, "
      "demo fails only with the change) | checks run against it |")
print("|---|---|---|---|")
print('\n'.join(rows))
