#!/venv/bin/python
"""Validate one seeded change and run checks against it.

  tools/seedtest.py CNN LABEL [--checks C12,C17] [--tier quick] [--skip-tests]

Takes /tmp/seed/CNN/patch_LABEL.diff + demo_LABEL.py + meta_LABEL.json (written by an independent
sub-agent), applies the patch to a fresh scratch worktree of /repo (never /repo itself), confirms
(1) the unedited test suite passes with it, (2) the demo passes on /repo and fails on the changed tree,
then runs the given checks (default: the property's own check) against the changed tree and stores
everything under /verif/seeded/CNN_LABEL/.
"""
import argparse
import json
import os
import shutil
import subprocess
import sys
import time

PY = '/venv/bin/python'


def run(cmd, env=None, cwd=None, timeout=3600):
    e = dict(os.environ)
    e.update(env or {})
    t0 = time.time()
    p = subprocess.run(cmd, shell=True, env=e, cwd=cwd, capture_output=True,
                       text=True, timeout=timeout)
    return p.returncode, p.stdout + p.stderr, time.time() - t0


def main():
    ap = argparse.ArgumentParser()
    ap.add_argument('pid')
    ap.add_argument('label')
    ap.add_argument('--checks', default=None)
    ap.add_argument('--tier', default='quick')
    ap.add_argument('--skip-tests', action='store_true')
    ap.add_argument('--jobs', default='8')
    ap.add_argument('--rerun', action='store_true',
                    help='take patch/demo/meta from /verif/seeded/CNN_LABEL '
                         '(re-run checks against a stored change)')
    a = ap.parse_args()
    src = f'/tmp/seed/{a.pid}'
    name = f'{a.pid}_{a.label}'
    out = f'/verif/seeded/{name}'
    os.makedirs(out, exist_ok=True)
    patch = f'{src}/patch_{a.label}.diff'
    demo = f'{src}/demo_{a.label}.py'
    meta = {}
    if a.rerun:
        patch, demo = f'{out}/patch.diff', f'{out}/demo.py'
        if os.path.exists(f'{out}/meta.json'):
            meta = json.load(open(f'{out}/meta.json'))
            meta['commands_run'] = meta.get('agent_report')
    else:
        shutil.copy(patch, f'{out}/patch.diff')
        shutil.copy(demo, f'{out}/demo.py')
    if not a.rerun and os.path.exists(f'{src}/meta_{a.label}.json'):
        try:
            meta = json.load(open(f'{src}/meta_{a.label}.json'))
        except Exception as e:  # noqa
            meta = {'agent_meta_unreadable': str(e)}
    res = {'property': a.pid, 'label': a.label,
           'summary': meta.get('summary'),
           'needs_to_manifest': meta.get('needs_to_manifest'),
           'files_changed': meta.get('files_changed'),
           'agent_report': meta.get('commands_run'), 'confirmed': {},
           'base_commit': meta.get('base_commit') or subprocess.run(
               ['git', '-C', '/repo', 'rev-parse', '--short', 'HEAD'],
               capture_output=True, text=True).stdout.strip()}
    wt = f'/tmp/mut/seed_{name}'
    rc, o, _ = run(f'/verif/tools/mutant.py patch seed_{name} {patch}')
    if rc != 0:
        res['confirmed']['apply'] = o[-500:]
        json.dump(res, open(f'{out}/meta.json', 'w'), indent=1)
        print('patch does not apply', o[-300:])
        return 1
    try:
        rc0, o0, t0 = run(f'{PY} {demo}', {'PYTHONPATH': '/repo'}, cwd=out)
        rc1, o1, t1 = run(f'{PY} {demo}', {'PYTHONPATH': wt}, cwd=out)
        res['confirmed']['demo_on_repo'] = {'rc': rc0, 's': round(t0, 1),
                                            'tail': o0[-300:]}
        res['confirmed']['demo_on_change'] = {'rc': rc1, 's': round(t1, 1),
                                              'tail': o1[-600:]}
        if not a.skip_tests:
            rc, o, t = run(
                f'{PY} -m pytest -q -p no:cacheprovider --timeout=900 '
                '--deselect "tests/test_cli.py::test_main" '
                '--deselect "tests/test_cli.py::test_main2"',
                {'PYTHONPATH': wt}, cwd=wt)
            res['confirmed']['test_suite'] = {
                'rc': rc, 's': round(t, 1), 'tail': o.strip()[-200:]}
        checks = (a.checks or a.pid).split(',')
        res['checks'] = {}
        for c in checks:
            rc, o, t = run(f'./check {c} --tier {a.tier}',
                           {'EMG3D_SRC': wt, 'VERIF_JOBS': a.jobs},
                           cwd='/verif', timeout=7200)
            lines = [ln for ln in o.split('\n') if 'class=' in ln]
            classes = {}
            for ln in lines:
                k = ln.split('class=')[1].split(' ::')[0]
                classes[k] = classes.get(k, 0) + 1
            summ = [ln for ln in o.split('\n') if ln.startswith(f'{c} tier')]
            res['checks'][f'{c}:{a.tier}'] = {
                'rc': rc, 's': round(t, 1), 'detected': rc == 1,
                'violation_lines': o.count('\nVIOLATION '),
                'classes_in_output': classes,
                'summary': summ[-1] if summ else o[-300:],
                'first': lines[0][:400] if lines else None}
    finally:
        run(f'/verif/tools/mutant.py rm seed_{name}')
    old = {}
    if os.path.exists(f'{out}/meta.json'):
        try:
            old = json.load(open(f'{out}/meta.json'))
        except Exception:  # noqa
            old = {}
    if old.get('checks'):
        merged = dict(old['checks'])
        merged.update(res.get('checks', {}))
        res['checks'] = merged
    if a.skip_tests and old.get('confirmed', {}).get('test_suite'):
        res['confirmed']['test_suite'] = old['confirmed']['test_suite']
    json.dump(res, open(f'{out}/meta.json', 'w'), indent=1)
    c = res['confirmed']
    print(f"{name}: demo repo rc={c['demo_on_repo']['rc']} change "
          f"rc={c['demo_on_change']['rc']} tests="
          f"{c.get('test_suite', {}).get('tail', 'skipped')[-40:]!r}")
    for k, v in res.get('checks', {}).items():
        print(f"   {k}: detected={v['detected']} {v['s']}s "
              f"{list(v['classes_in_output'])[:4]}")
    return 0


if __name__ == '__main__':
    sys.exit(main())
