#!/bin/sh
# tools/runmut.sh NAME CHECK [tier]   -- run a check against mutant worktree /tmp/mut/NAME, then remove it
cd /verif
name=$1; chk=$2; tier=${3:-quick}
out=$(EMG3D_SRC=/tmp/mut/$name ./check $chk --tier $tier 2>&1)
echo "== mutant $name vs $chk: $(echo "$out" | grep -c '^VIOLATION') VIOLATION lines; $(echo "$out" | grep "^$chk tier" | tail -1)"
echo "$out" | grep -A1 '^VIOLATION' | grep 'class=' | sort | uniq -c | sort -rn | head -4
tools/mutant.py rm $name >/dev/null 2>&1
