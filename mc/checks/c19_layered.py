"""C19 - layered (1-D) mode agrees with the 1-D reference modeller.

Engine E1: deviation-bounded lattice on ``Simulation(layered=True)`` (model
case x mapping x grid x z-discretisation x source type/format x receiver
types x relative x frequencies x method x ellipse settings x merge x observed
data x permittivity/permeability) and a full product on
``Model.extract_1d`` for laterally *varying* models.  Oracles:

(a) every response equals a direct ``empymod.bipole`` call made here: layering
    read off the *specification* of the model (adjacent equal layers merged,
    given top-down), sources given by their electrode end points, receivers by
    their absolute coordinates (1e-10 of the largest response of the
    source-receiver pair);
(b) hence independence of method / ellipse settings / merge;
(c) slots without finite observed data are NaN, all others finite;
(d) ``Model.extract_1d``: imat >= 0, sum imat = 1, support = cells whose
    centres lie in the documented ellipse (cylinder) / its bounding index box
    (prism) / the midpoint cell, weights proportional to the cell areas, the
    returned 1-D values are the imat-weighted (log-)averages;
(e) the finite-difference gradient summed over each layer equals
    (phi(layer sigma*(1+1e-4)) - phi)/delta computed with fresh simulations,
    compared in conductivity (mapping chain-rule factor divided out
    analytically; 1e-6 of the largest layer value) and in the mapped
    parameter itself (1e-3); the misfit equals the one computed from the
    direct empymod responses.
"""
import copy
import itertools
import warnings

import numpy as np

from .. import zoo, space

FN = 'mc.checks.c19_layered:case'
FNW = 'mc.checks.c19_layered:case_weights'

# ------------------------------------------------------------ the 1-D medium
# six layers incl. air, bottom -> top; interfaces (m), z positive upwards
INTERFACES = (-1800.0, -1500.0, -1400.0, -600.0, 0.0)
COND_H = (1.0, 0.5, 0.01, 0.8, 3.0, 1e-8)
COND_V = (0.5, 0.5, 0.004, 0.5, 2.5, 1e-8)   # layers 0|1 differ in sigma_h only
MU_R = (1.0, 1.2, 1.0, 1.5, 1.0, 1.0)
EPS_R = (5.0, 2.0, 10.0, 3.0, 80.0, 1.0)
ZGRIDS = {       # z-nodes of the 3-D grid (every interface is a node)
    'one': (-3000., -1800., -1500., -1400., -600., 0., 800.),
    'split': (-3000., -2300., -1800., -1500., -1400., -1000., -600., -300.,
              0., 300., 800.),
}
XY0 = (-1500.0, -1700.0)          # grid origin in x, y


def layer_values(spec, which):
    """Per-layer values (bottom -> top) of the specified medium."""
    base = {'h': COND_H, 'v': COND_V, 'mu': MU_R, 'eps': EPS_R}[which]
    v = np.array(base, dtype=float)
    if spec.get('vals') == 'rnd' and which in ('h', 'v'):
        f = 10**zoo.rng('c19', which).uniform(-0.4, 0.4, v.size)
        f[-1] = 1.0
        v = v*f
    if which == 'v' and spec.get('case') != 'VTI':
        return None
    pert = spec.get('perturb')          # [which, layer, factor]
    if pert and pert[0] == which:
        v[pert[1]] *= pert[2]
    scale = spec.get('scale')           # all conductivities (observed data)
    if scale and which in ('h', 'v'):
        v[:-1] = v[:-1]*np.array(scale)[:v.size-1]
    return v


def layer_of_cells(znodes):
    """Layer index of every z-cell of the grid."""
    zc = (np.asarray(znodes)[1:] + np.asarray(znodes)[:-1])/2
    return np.searchsorted(np.asarray(INTERFACES), zc)


def build_model(spec):
    import emg3d
    nx, ny = spec.get('nxy', (9, 8))
    wx, wy = spec.get('w', ('geo', 'alt'))
    hx = zoo.widths(nx, wx, 0)*spec.get('unit', 220.0)
    hy = zoo.widths(ny, wy, 1)*spec.get('unit', 220.0)*1.6
    zn = np.array(ZGRIDS[spec.get('z', 'one')])
    grid = emg3d.TensorMesh([hx, hy, np.diff(zn)],
                            origin=(XY0[0], XY0[1], zn[0]))
    lay = layer_of_cells(zn)
    shape = tuple(grid.shape_cells)
    mapping = spec.get('mapping', 'Conductivity')
    kw = {}
    kw['property_x'] = zoo.to_mapping(
        np.broadcast_to(layer_values(spec, 'h')[lay], shape).copy(), mapping)
    cv = layer_values(spec, 'v')
    if cv is not None:
        kw['property_z'] = zoo.to_mapping(
            np.broadcast_to(cv[lay], shape).copy(), mapping)
    pc = spec.get('perturb_cells')      # [which, z-cell index, factor]
    if pc:
        name = 'property_x' if pc[0] == 'h' else 'property_z'
        sig = layer_values(spec, pc[0])[lay[pc[1]]]*pc[2]
        kw[name][:, :, pc[1]] = zoo.to_mapping(np.array(sig), mapping)
    if spec.get('perm') in (True, 'mu'):
        kw['mu_r'] = np.broadcast_to(layer_values(spec, 'mu')[lay],
                                     shape).copy()
    if spec.get('perm') in (True, 'eps'):
        kw['epsilon_r'] = np.broadcast_to(layer_values(spec, 'eps')[lay],
                                          shape).copy()
    return emg3d.Model(grid, mapping=mapping, **kw), lay


# ------------------------------------------------------------------ sources
S_CENTER = ((-40.0, 60.0, -550.0), (310.0, -220.0, -480.0))
S_ANGLE = ((25.0, 10.0), (-70.0, -5.0))
S_STRENGTH = (2.0, 0.5)
SOURCES = ('ed_flat', 'ed_point_unit', 'ed_point_len', 'ed_two_point',
           'e_point', 'md_flat', 'md_point_unit', 'md_point_len', 'm_point')


def unit_vector(azm, elev):
    a, e = np.deg2rad(azm), np.deg2rad(elev)
    return np.array([np.cos(a)*np.cos(e), np.sin(a)*np.cos(e), np.sin(e)])


def source(kind, i):
    """-> (emg3d source, reference description).

    The reference description is what this check gives to empymod: a finite
    dipole by its end points [x0, x1, y0, y1, z0, z1] or an infinitesimal
    one [x, y, z, azimuth, dip], the current, and the centre."""
    import emg3d
    c = np.array(S_CENTER[i])
    azm, elev = S_ANGLE[i]
    cur = S_STRENGTH[i]
    length = {'ed_point_unit': 1.0, 'md_point_unit': 1.0}.get(kind, 180.0)
    half = unit_vector(azm, elev)*length/2
    p0, p1 = c - half, c + half
    ends = [p0[0], p1[0], p0[1], p1[1], p0[2], p1[2]]
    five = [c[0], c[1], c[2], azm, elev]
    mag = kind.startswith('m')
    ref = {'msrc': mag, 'strength': cur, 'center': c, 'src': ends,
           'five': five, 'length': length}
    cls = {'e': emg3d.TxElectricDipole, 'm': emg3d.TxMagneticDipole}[kind[0]]
    if kind in ('ed_flat', 'md_flat'):
        src = cls(ends, strength=cur)
    elif kind == 'ed_two_point':
        src = cls([list(p0), list(p1)], strength=cur)
    elif kind in ('ed_point_unit', 'md_point_unit', 'ed_point_len',
                  'md_point_len'):
        src = cls(five, strength=cur, length=length)
    elif kind == 'e_point':
        src = emg3d.TxElectricPoint(five, strength=cur)
        ref['src'] = five
        ref['length'] = None
    elif kind == 'm_point':
        src = emg3d.TxMagneticPoint(five, strength=cur)
        ref['src'] = five
        ref['length'] = None
    else:
        raise ValueError(kind)
    return src, ref


# ---------------------------------------------------------------- receivers
# offsets from the source centre (used as such if relative=True; otherwise
# the receivers sit at these offsets from the FIRST source)
R_OFFSET = ((820.0, 310.0, -49.0, 0.0, 0.0),
            (-400.0, 900.0, -30.0, 90.0, 0.0),
            (1500.0, -700.0, -160.0, 35.0, 20.0),
            (60.0, -1250.0, -49.5, -120.0, -15.0))
RTYPES = {'EEHH': 'eehh', 'EEEE': 'eeee', 'HHHH': 'hhhh', 'HEHE': 'hehe'}


def receivers(rtypes, relative, sources_ref):
    """-> (list of emg3d receivers, absolute coordinates [src][rec])."""
    import emg3d
    recs, absol = [], []
    c0 = sources_ref[0]['center']
    for t, off in zip(RTYPES[rtypes], R_OFFSET):
        cls = emg3d.RxElectricPoint if t == 'e' else emg3d.RxMagneticPoint
        if relative:
            coo = off
        else:
            coo = (c0[0]+off[0], c0[1]+off[1], c0[2]+off[2], off[3], off[4])
        recs.append(cls(coo, relative=relative))
    for sr in sources_ref:
        c = sr['center'] if relative else c0
        absol.append([[c[0]+o[0], c[1]+o[1], c[2]+o[2], o[3], o[4]]
                      for o in R_OFFSET])
    return recs, absol


# ------------------------------------------------- direct reference modeller
def reference(spec, sref, rec5, mrec, freqs, hyp=()):
    """Direct empymod.bipole call for one source-receiver pair.

    Layering top-down with equal adjacent layers merged (taken from the
    specification, not from the emg3d model).  `hyp`: known-defect
    hypotheses used only to *name* a disagreement ('len': a
    (x,y,z,azm,elev)-dipole is taken as a unit dipole)."""
    import empymod
    ch = layer_values(spec, 'h')
    cv = layer_values(spec, 'v')
    mu = layer_values(spec, 'mu') if spec.get('perm') in (True, 'mu') \
        else None
    ep = layer_values(spec, 'eps') if spec.get('perm') in (True, 'eps') \
        else None
    cols = [x for x in (ch, cv, mu, ep) if x is not None]
    keep = [0] + [k for k in range(1, ch.size)
                  if any(x[k] != x[k-1] for x in cols)]
    depth = [INTERFACES[k-1] for k in keep[1:]]
    sel = np.array(keep)[::-1]
    inp = {'depth': depth[::-1], 'res': 1.0/ch[sel]}
    if cv is not None:
        inp['aniso'] = np.sqrt(ch[sel]/cv[sel])     # sqrt(rho_v/rho_h)
    if mu is not None:
        inp['mpermH'] = mu[sel]
    if ep is not None:
        inp['epermH'] = ep[sel]
    src = sref['five'] if 'len' in hyp else sref['src']
    with warnings.catch_warnings():
        warnings.simplefilter('ignore')
        out = empymod.bipole(src=src, rec=list(rec5), freqtime=list(freqs),
                             msrc=sref['msrc'], mrec=mrec,
                             strength=sref['strength'], verb=0, **inp)
    return np.atleast_1d(np.asarray(out, dtype=complex))


def dsigma_dm(mapping, sigma):
    """d sigma / d m of the property mapping (analytic)."""
    return {'Conductivity': np.ones_like(sigma), 'Resistivity': -sigma**2,
            'LgConductivity': sigma*np.log(10),
            'LgResistivity': -sigma*np.log(10),
            'LnConductivity': sigma, 'LnResistivity': -sigma}[mapping]


# ------------------------------------------------------------- configuration
FREQS = {'two': (0.5, 2.0), 'one': (1.0,), 'three': (0.1, 1.0, 7.0),
         'unsorted': (2.0, 0.25, 1.0)}
DOM = {
    'case': ['isotropic', 'VTI'],
    'mapping': ['Conductivity', 'Resistivity', 'LgConductivity'],
    'w': [('geo', 'alt'), ('rnd', 'geo'), ('uni', 'uni')],
    'z': ['one', 'split'],
    'vals': ['fix', 'rnd'],
    'perm': [False, True, 'eps', 'mu'],
    'src': list(SOURCES),
    'rtypes': list(RTYPES),
    'relative': [False, True],
    'freqs': list(FREQS),
    'method': [None, 'cylinder', 'prism', 'midpoint', 'source', 'receiver'],
    'radius': [None, 1e-3, 300.0, 5000.0],
    'factor': [None, 1.0, 1.3],
    'minor': [None, 1.0, 0.7, 0.3],
    'check_foci': [None, False, True],
    'merge': [None, True, False],
    'observed': ['none', 'full', 'gaps'],
    'touch': [False, True],
}
MAPPINGS_T = ['LgResistivity', 'LnConductivity', 'LnResistivity']


def layered_opts(c):
    lo = {}
    if c['method'] is not None:
        lo['method'] = c['method']
    if c['merge'] is not None:
        lo['merge'] = c['merge']
    ell = {k: c[k] for k in ('radius', 'factor', 'minor', 'check_foci')
           if c[k] is not None}
    if ell:
        lo['ellipse'] = ell
    return lo


def gap_mask(shape):
    """Deterministic NaN pattern: single frequencies, a whole
    source-receiver row, one pair with only its FIRST and one with only its
    LAST frequency present."""
    m = np.ones(shape, dtype=bool)           # True = finite
    ns, nr, nf = shape
    m[0, 1, :] = False                        # whole row missing
    m[1, 0, 1:] = False                       # only first frequency
    m[1, 2, :-1] = False                      # only last frequency
    m[0, 3, nf // 2] = False
    if nf == 1:
        m[1, 0, :] = True
        m[1, 3, :] = False
    return m


def make_survey(c, obs_spec=None):
    """-> survey, sources_ref, rec_abs; observed data from the direct
    reference responses of a *scaled* medium (so that residuals are 10-40 %)
    """
    import emg3d
    kinds = [c['src'], c['src']]
    srcs, srefs = zip(*[source(k, i) for i, k in enumerate(kinds)])
    recs, rabs = receivers(c['rtypes'], c['relative'], srefs)
    freqs = FREQS[c['freqs']]
    survey = emg3d.Survey(list(srcs), recs, list(freqs), noise_floor=1e-16,
                          relative_error=0.05)
    if c.get('touch'):
        # reading the public (lazily computed) attributes of the electrodes
        # beforehand must not change anything
        for el in list(survey.sources.values()) + list(
                survey.receivers.values()):
            for name in dir(el):
                if not name.startswith('_'):
                    try:
                        getattr(el, name)
                    except Exception:  # noqa - e.g. needs arguments
                        pass
    return survey, srefs, rabs, freqs


def ref_data(c, srefs, rabs, freqs, spec=None, hyp=()):
    spec = spec or c
    out = np.zeros((len(srefs), len(rabs[0]), len(freqs)), dtype=complex)
    for i, sr in enumerate(srefs):
        for j, r5 in enumerate(rabs[i]):
            out[i, j, :] = reference(spec, sr, r5,
                                     RTYPES[c['rtypes']][j] == 'h', freqs,
                                     hyp)
    return out


def relerr(a, b):
    """max |a-b| per source-receiver pair, relative to the pair's largest
    reference amplitude; NaN-aware (NaN pattern must agree)."""
    fin = np.isfinite(b)
    if not np.array_equal(np.isfinite(a), fin):
        return np.inf
    scale = np.where(fin, np.abs(b), 0).max(axis=-1, keepdims=True)
    scale = np.where(scale > 0, scale, 1.0)
    d = np.where(fin, np.abs(np.where(fin, a, 0) - np.where(fin, b, 0)), 0)
    return float((d/scale).max())


class UserOptionsModified(Exception):
    """The layered_opts dict handed to Simulation was changed in place."""


def simulate(c, survey, spec=None):
    import emg3d
    model, lay = build_model(spec or c)
    with warnings.catch_warnings():
        warnings.simplefilter('ignore')
        lo = layered_opts(c)
        keep = copy.deepcopy(lo)
        sim = emg3d.Simulation(survey, model, layered=True, gridding='same',
                               layered_opts=lo, max_workers=1,
                               verb=-1, tqdm_opts=False)
        # the caller's options object stays the caller's: estimated values
        # (ellipse radius, ...) must not be written back into it
        if lo != keep:
            raise UserOptionsModified(f'{keep} -> {lo}')
    return sim, model, lay


def case(c):
    """One lattice point; c = configuration dict over DOM + 'fn'."""
    c = dict(c)
    c['w'] = tuple(c['w'])
    viol, compared = [], 0
    survey, srefs, rabs, freqs = make_survey(c)
    ref = ref_data(c, srefs, rabs, freqs)
    shape = ref.shape
    # observed data: responses of a medium with other conductivities
    obs_spec = dict(c, scale=[1.3, 0.8, 1.5, 0.9, 1.1])
    if c['observed'] != 'none':
        obs = ref_data(c, srefs, rabs, freqs, spec=obs_spec)
        if c['observed'] == 'gaps':
            obs[~gap_mask(shape)] = np.nan + 1j*np.nan
        survey.data['observed'][...] = obs
    else:
        obs = None
    expect = ref.copy()
    if obs is not None:
        expect[~np.isfinite(obs)] = np.nan + 1j*np.nan

    # -------------------------------------------------------- forward: a-c
    try:
        with warnings.catch_warnings(), np.errstate(all='ignore'):
            warnings.simplefilter('ignore')
            sim, model, lay = simulate(c, survey)
            sim.compute()
    except Exception as e:       # noqa
        cls = 'layered-compute-raises'
        if c['src'] == 'ed_two_point' and isinstance(e, ValueError) and \
                'wrong length' in str(e):
            cls = 'layered-dipole-two-point-format-rejected'
        return {'viol': [{'cls': cls, 'what': f"Simulation(layered=True)"
                          f".compute() raised {type(e).__name__}: {e}"[:300],
                          'observed': repr(e)}],
                'compared': 1, 'nontrivial': True,
                'outcome': ('raise', type(e).__name__)}
    syn = sim.data.synthetic.data
    compared += int(np.isfinite(expect).sum())
    # (c) NaN pattern
    nanpat_ok = np.array_equal(np.isfinite(syn), np.isfinite(expect))
    if not nanpat_ok:
        bad = np.argwhere(np.isfinite(syn) != np.isfinite(expect))
        viol.append({'cls': 'layered-nan-pattern',
                     'what': f"finite/NaN pattern of the synthetic data "
                             f"differs from that of the observed data at "
                             f"{len(bad)} slots, first (src, rec, freq) = "
                             f"{bad[0].tolist()}",
                     'observed': np.isfinite(syn).astype(int),
                     'expected': np.isfinite(expect).astype(int)})
    # (a, b) values
    both = np.isfinite(syn) & np.isfinite(expect)
    a = np.where(both, syn, np.nan)
    b = np.where(both, expect, np.nan)
    err = relerr(a, b)
    known = []
    if not err <= 1e-10:
        # name the disagreement: does it match a known-defect hypothesis?
        hyps = []
        if c['src'] in ('ed_point_len', 'md_point_len'):
            hyps.append('len')
        if c['relative']:
            hyps.append('rel')
        for r in range(1, len(hyps)+1):
            for h in itertools.combinations(hyps, r):
                rabs_h = rabs
                if 'rel' in h:       # offsets taken as absolute coordinates
                    rabs_h = [[list(o) for o in R_OFFSET] for _ in srefs]
                alt = ref_data(c, srefs, rabs_h, freqs, hyp=h)
                if relerr(a, np.where(both, alt, np.nan)) <= 1e-10:
                    known = list(h)
                    break
            if known:
                break
        names = {'len': 'layered-dipole-length-ignored',
                 'rel': 'layered-relative-receiver-coordinates'}
        whats = {'len': "a dipole given as (x, y, z, azimuth, elevation) "
                        "with length L is modelled as a unit dipole "
                        "(response too small by the factor L)",
                 'rel': "for relative=True receivers the 1-D call uses the "
                        "offsets as absolute coordinates"}
        ij = np.unravel_index(np.nanargmax(np.abs(a-b)/np.nanmax(np.abs(b))),
                              a.shape)
        if known:
            for h in known:
                viol.append({'cls': names[h],
                             'what': f"{whats[h]}; rel. error {err:.2e} vs "
                                     f"direct empymod.bipole (src "
                                     f"{c['src']}, relative={c['relative']})",
                             'observed': syn[ij], 'expected': expect[ij]})
        else:
            viol.append({'cls': 'layered-response-differs-from-empymod',
                         'what': f"rel. error {err:.2e} at (src, rec, freq)="
                                 f"{[int(k) for k in ij]}",
                         'observed': syn[ij], 'expected': expect[ij]})
    outcome = ['ok' if err <= 1e-10 else 'known:' + '+'.join(known)
               if known else 'differs',
               int(np.isfinite(syn).sum()), int((~np.isfinite(syn)).sum())]

    # ------------------------------------------------------ gradient: (e)
    if c.get('fn') == 'gradient' and obs is not None:
        v, k, oc = check_gradient(c, sim, model, lay, survey, obs, ref,
                                  bool(known) or err > 1e-10)
        viol += v
        compared += k
        outcome += oc
    return {'viol': viol, 'compared': compared,
            'nontrivial': bool(np.isfinite(syn).any()),
            'transitions': int(shape[0]*shape[1]),
            'outcome': tuple(outcome),
            'count': {'empymod_pairs': int(shape[0]*shape[1])}}


def fresh_misfit(c, obs, spec):
    survey, _, _, _ = make_survey(c)
    survey.data['observed'][...] = obs
    with warnings.catch_warnings(), np.errstate(all='ignore'):
        warnings.simplefilter('ignore')
        sim, _, _ = simulate(c, survey, spec)
        return float(sim.misfit)


def check_gradient(c, sim, model, lay, survey, obs, ref, response_off):
    viol, compared = [], 0
    with warnings.catch_warnings(), np.errstate(all='ignore'):
        warnings.simplefilter('ignore')
        try:
            phi = float(sim.misfit)
            grad = np.array(sim.gradient)
        except Exception as e:      # noqa
            cls = 'layered-gradient-raises'
            if c['merge']:
                cls = 'layered-gradient-with-merge-raises'
            return [{'cls': cls, 'what': f"gradient raised "
                     f"{type(e).__name__}: {e}"[:300]}], 1, ['grad-raise']
    # misfit from the direct responses
    fin = np.isfinite(obs)
    std = np.sqrt(1e-16**2 + (0.05*np.abs(obs))**2)
    phi_ref = float(np.sum(np.where(fin, np.abs(ref - obs)**2/std**2, 0))/2)
    compared += 1
    if not response_off and not abs(phi - phi_ref) <= 1e-8*phi_ref:
        viol.append({'cls': 'layered-misfit-differs',
                     'what': f"misfit {phi!r} vs {phi_ref!r} from the direct "
                             "empymod responses",
                     'observed': phi, 'expected': phi_ref})
    vti = c['case'] == 'VTI'
    if grad.shape != ((2,) if vti else ()) + tuple(model.shape):
        return viol + [{'cls': 'layered-gradient-shape',
                        'what': f"shape {grad.shape}"}], compared, ['shape']
    nlay = lay.size            # the layers of the property: z-cell slabs
    rel = 1e-4
    worst = 0.0
    for which, g in (('h', grad[0] if vti else grad),) + (
            (('v', grad[1]),) if vti else ()):
        sig = layer_values(c, which)[lay]
        fd = np.zeros(nlay)
        fdm = np.zeros(nlay)
        have = np.zeros(nlay)
        havem = np.zeros(nlay)
        for k in range(nlay):
            phik = fresh_misfit(c, obs,
                                dict(c, perturb_cells=[which, k, 1+rel]))
            fd[k] = (phik - phi)/(sig[k]*rel)
            m0 = zoo.to_mapping(np.array(sig[k]), c['mapping'])
            m1 = zoo.to_mapping(np.array(sig[k]*(1+rel)), c['mapping'])
            fdm[k] = (phik - phi)/(m1 - m0)
            gk = g[:, :, k].sum()
            havem[k] = gk
            have[k] = gk/dsigma_dm(c['mapping'], np.array(sig[k]))
        compared += 2*nlay
        # layers are made commensurable by their conductivity: sigma_k *
        # d phi/d sigma_k = d phi / d ln sigma_k (the derivative with respect
        # to the 1e-8 S/m air layer is rounding noise divided by 1e-12)
        scale = np.abs(sig*fd).max()
        e1 = np.abs(sig*(have - fd)).max()/scale
        dm = sig/dsigma_dm(c['mapping'], sig)      # d m / d ln sigma
        e2 = np.abs(dm*(havem - fdm)).max()/np.abs(dm*fdm).max()
        worst = max(worst, e1)
        if not e1 <= 1e-6:
            k = int(np.argmax(np.abs(sig*(have - fd))))
            viol.append({
                'cls': 'layered-gradient-differs-from-layer-perturbation',
                'what': f"sigma_{which}: layer sums of the gradient vs "
                        f"(phi(sigma_k*(1+1e-4))-phi)/delta: rel. error "
                        f"{e1:.2e} (layer {k} from the bottom)",
                'observed': have, 'expected': fd})
        elif not e2 <= 1e-3:
            viol.append({
                'cls': 'layered-gradient-mapped-parameter',
                'what': f"property_{'x' if which == 'h' else 'z'} "
                        f"({c['mapping']}): layer sums vs FD in the mapped "
                        f"parameter: rel. error {e2:.2e}",
                'observed': havem, 'expected': fdm})
    return viol, compared, ['grad', int(np.floor(np.log10(worst + 1e-17)))]


# ====================================================== (d) extract_1d weights
def ref_ellipse(x, y, p0, p1, radius, factor=1.0, minor=1.0, check_foci=True):
    """Documented ellipse (maps.ellipse_indices docstring), written in the
    rotated frame: centre = midpoint, a = max(f c, c + r), b = max(m a, r),
    with check_foci b >= sqrt(a^2 - c^2); inside iff (u/a)^2+(v/b)^2 <= 1."""
    p0, p1 = np.asarray(p0, float), np.asarray(p1, float)
    cen = (p0 + p1)/2
    d = (p1 - p0)/2
    cdist = np.hypot(*d)
    t = d/cdist if cdist > 0 else np.array([1.0, 0.0])
    a = max(factor*cdist, cdist + radius, 1e-9)
    b = max(minor*a, radius, 1e-9)
    if check_foci:
        b = max(b, np.sqrt(abs(a*a - cdist*cdist)))
    X, Y = np.meshgrid(x - cen[0], y - cen[1], indexing='ij')
    u = X*t[0] + Y*t[1]
    v = -X*t[1] + Y*t[0]
    q = (u/a)**2 + (v/b)**2
    return q, a, b


W_POINTS = [((-300.0, 100.0), (900.0, 650.0)), ((0.0, 0.0), (0.0, 0.0)),
            ((-900.0, -1200.0), (1400.0, -1200.0)),
            ((250.0, -600.0), (250.0, 1300.0)),
            ((-5000.0, 0.0), (-4000.0, 300.0)),       # outside the grid
            ((1200.0, 1500.0), (-700.0, -300.0)),
            ((-1500.0, -1700.0), (-1280.0, -1348.0))]  # on nodes


def case_weights(c):
    """extract_1d on a laterally varying model: one (grid, mapping, case,
    points) with the full method x ellipse alphabet inside."""
    import emg3d
    spec = {'w': tuple(c['w']), 'z': c['z'], 'nxy': tuple(c['nxy'])}
    _, lay = build_model(dict(spec, mapping='Conductivity'))
    nx, ny = spec['nxy']
    hx = zoo.widths(nx, spec['w'][0], 0)*220.0
    hy = zoo.widths(ny, spec['w'][1], 1)*220.0*1.6
    zn = np.array(ZGRIDS[spec['z']])
    grid = emg3d.TensorMesh([hx, hy, np.diff(zn)],
                            origin=(XY0[0], XY0[1], zn[0]))
    shape = tuple(grid.shape_cells)
    mapping = c['mapping']
    lin = {'property_x': zoo.cell_values(shape, 'rnd', 'x', 0.01, 10.)}
    if c['case'] == 'VTI':
        lin['property_z'] = zoo.cell_values(shape, 'rnd', 'z', 0.01, 10.)
    if c['perm']:
        lin['mu_r'] = zoo.cell_values(shape, 'rnd', 'm', 0.5, 3.0)
        lin['epsilon_r'] = zoo.cell_values(shape, 'rnd', 'e', 1., 80.)
    if c.get('zgroups'):
        # z-structure: every property is (lateral pattern) x (factor per
        # z-cell), the factors constant over groups of adjacent z-cells that
        # differ from property to property (the last property constant in
        # z), so that merge=True meets interfaces at which only ONE property
        # changes
        k = np.arange(shape[2])
        pats = [k//2, (k + 1)//2, k//3]
        names = list(lin)
        for j, name in enumerate(names):
            g = 0*k if (j == len(names) - 1 and j > 0) else pats[j % 3]
            fac = (1.0 + 0.37*g)**(-1 if name == 'property_z' else 1)
            lin[name] = lin[name][:, :, :1]*fac[None, None, :]
    kw = {n: (zoo.to_mapping(v, mapping) if n.startswith('prop') else v)
          for n, v in lin.items()}
    model = emg3d.Model(grid, mapping=mapping, **kw)
    xc, yc = grid.cell_centers_x, grid.cell_centers_y
    area = np.outer(grid.h[0], grid.h[1])
    p0, p1 = W_POINTS[c['points']]
    viol, compared, outcomes = [], 0, set()
    nontrivial = 0
    for method, radius, factor, minor, cf, merge in itertools.product(
            ('cylinder', 'prism', 'midpoint'), (1e-3, 250.0, 900.0, 6000.0),
            (None, 1.0, 1.3), (None, 1.0, 0.7, 0.3), (None, True, False),
            (False, True)):
        if method == 'midpoint' and (radius != 250.0 or factor or minor
                                     or cf is not None):
            continue
        ell = {'radius': radius}
        for k, v in (('factor', factor), ('minor', minor),
                     ('check_foci', cf)):
            if v is not None:
                ell[k] = v
        kwargs = {'ellipse': ell} if method != 'midpoint' else {}
        lm, imat = model.extract_1d(method, p0, p1, merge=merge,
                                    return_imat=True, **kwargs)
        compared += 1
        tag = f"{method} {ell} merge={merge} p0={p0} p1={p1}"
        # reference support and weights
        if method != 'midpoint':
            q, a, b = ref_ellipse(xc, yc, p0, p1, **ell)
            inside = q <= 1.0
            # cells whose centre is (to rounding) ON the ellipse: either way
            edge = np.abs(q - 1.0) <= 1e-9
        else:
            inside = np.zeros(shape[:2], dtype=bool)
            edge = inside
        if method == 'midpoint' or not inside.any():
            mx, my = (p0[0]+p1[0])/2, (p0[1]+p1[1])/2
            ix = int(np.clip(np.searchsorted(grid.nodes_x, mx, 'right')-1, 0,
                             nx-1))
            iy = int(np.clip(np.searchsorted(grid.nodes_y, my, 'right')-1, 0,
                             ny-1))
            want = np.zeros(shape[:2])
            want[ix, iy] = 1.0
            kind = 'midpoint' if method == 'midpoint' else 'empty->midpoint'
        else:
            if method == 'prism':
                ii, jj = np.nonzero(inside)
                box = np.zeros_like(inside)
                box[ii.min():ii.max()+1, jj.min():jj.max()+1] = True
                sel = box
            else:
                sel = inside
            want = area*sel
            want = want/want.sum()
            kind = method
        outcomes.add((kind, int((want > 0).sum())))
        nontrivial += int((want > 0).sum() > 1)
        bad = None
        if imat.shape != shape[:2]:
            bad = ('extract-imat-shape', f"imat shape {imat.shape}")
        elif not (imat >= 0).all():
            bad = ('extract-imat-negative', f"min imat {imat.min():.3e}")
        elif not abs(imat.sum() - 1.0) <= 1e-12:
            bad = ('extract-imat-not-normalised',
                   f"sum imat = {imat.sum()!r}")
        elif not np.abs(imat - want).max() <= 1e-12 and not edge.any():
            k = np.unravel_index(np.argmax(np.abs(imat - want)), imat.shape)
            bad = ('extract-imat-support-or-weights',
                   f"imat differs from area weights on the documented "
                   f"{kind} support: cell {tuple(int(i) for i in k)} has "
                   f"{imat[k]:.6f}, expected {want[k]:.6f}; support sizes "
                   f"{int((imat > 0).sum())} vs {int((want > 0).sum())}")
        if bad is None:
            # returned 1-D values = imat-weighted average of log-conductivity
            for name in ('property_x', 'property_z', 'mu_r', 'epsilon_r'):
                val3 = getattr(model, name)
                if val3 is None:
                    continue
                got = getattr(lm, name)
                logmap = mapping.startswith('L')
                x3 = val3 if logmap else np.log10(val3)
                avg = np.einsum('ij,ijk->k', imat, x3)
                avg = avg if logmap else 10**avg
                if merge:
                    # merged model: piecewise constant on the merged grid
                    zc = grid.cell_centers_z
                    idx = np.searchsorted(lm.grid.nodes_z, zc) - 1
                    gotfull = got[0, 0, idx]
                else:
                    gotfull = got[0, 0, :]
                if gotfull.shape != avg.shape or not np.allclose(
                        gotfull, avg, rtol=1e-12, atol=0):
                    bad = ('extract-values-not-imat-average',
                           f"{name}: returned 1-D values differ from the "
                           "imat-weighted (log-)average")
                    break
            if bad is None and lm.grid.shape_cells[:2] != (1, 1):
                bad = ('extract-model-not-1d', f"{lm.grid.shape_cells}")
        if bad:
            viol.append({'cls': bad[0], 'what': f"{bad[1]} [{tag}]",
                         'observed': imat, 'expected': want})
    return {'viol': viol[:20], 'compared': compared,
            'transitions': compared, 'nontrivial': nontrivial > 0,
            'outcome': tuple(sorted(outcomes))[:40],
            'count': {'extractions': compared,
                      'multi_cell_supports': nontrivial}}


# ================================================================ enumeration
GRAD_CORE = ('case', 'mapping', 'z', 'perm', 'merge', 'observed', 'rtypes')


def lattice_cases(depth, fn, extra_mappings=(), core_depth=0):
    """Lattice of the given depth over all parameters, plus (core_depth)
    the deeper lattice over the GRAD_CORE parameters only."""
    dom = dict(DOM)
    if extra_mappings:
        dom['mapping'] = DOM['mapping'] + list(extra_mappings)
    if fn == 'gradient':
        dom['observed'] = ['gaps', 'full']
    out, seen = [], set()
    lat = list(space.lattice(dom, depth))
    if core_depth > depth:
        base = space.default(dom)
        core = {n: dom[n] for n in GRAD_CORE}
        for cfg, dev in space.lattice(core, core_depth):
            if len(dev) > depth:
                lat.append(({**base, **cfg}, dev))
    for cfg, dev in lat:
        cfg = dict(cfg)
        cfg['fn'] = fn
        cfg['dev'] = [f"{n}={dom[n][i]}" for n, i in dev]
        key = repr(sorted(cfg['dev']))
        if key not in seen:
            seen.add(key)
            out.append(cfg)
    return out


def weight_cases(thorough):
    out = []
    grids = [(('geo', 'alt'), (9, 8)), (('rnd', 'geo'), (7, 10))]
    if thorough:
        grids += [(('uni', 'uni'), (12, 11)), (('alt', 'rnd'), (5, 4)),
                  (('geo', 'geo'), (1, 6))]
    maps_ = ['Conductivity', 'Resistivity', 'LgConductivity'] + (
        MAPPINGS_T if thorough else [])
    for (w, nxy), mapping, case_, perm, pts in itertools.product(
            grids, maps_, ('isotropic', 'VTI'), (False, True),
            range(len(W_POINTS))):
        if not thorough and perm and case_ == 'VTI':
            continue
        out.append({'w': w, 'nxy': nxy, 'z': 'split' if perm else 'one',
                    'mapping': mapping, 'case': case_, 'perm': perm,
                    'points': pts})
        if thorough or pts in (0, 3):
            out.append(dict(out[-1], z='split', zgroups=True))
    return out


def prepare(ctx):
    # compile / load empymod's and emg3d's kernels once in the parent
    c = dict(space.default(DOM), fn='gradient', observed='gaps')
    case(c)
    case(dict(c, case='VTI', src='m_point', rtypes='HEHE', perm=True))


def run(ctx):
    prepare(ctx)
    ctx.assume(
        "media: 6 layers incl. air (fixed interfaces; conductivities fixed "
        "or scaled by a seeded factor), isotropic / VTI, optional layered "
        "mu_r and epsilon_r; 3-D grids with stretched x/y widths and one or "
        "several z-cells per layer; sources and receivers inside the water "
        "layer, not on interfaces",
        "sources: two per survey of the same kind (electric dipole in its "
        "three coordinate formats, with unit and non-unit length, electric "
        "point, magnetic dipole, magnetic point); four point receivers; the "
        "reference takes a magnetic dipole as empymod's msrc=True dipole "
        "between the same end points (the loop convention i*omega*mu*A of "
        "the 3-D code is not part of this property)",
        "response tolerance 1e-10 of the largest amplitude of the "
        "source-receiver pair; gradient 1e-6 of the largest layer value (in "
        "conductivity), 1e-3 in the mapped parameter",
        "extract_1d: cells whose centre lies on the ellipse to 1e-9 are "
        "accepted either way")
    quick = ctx.quick
    cap = ctx.budget or (400 if quick else 2200)
    if ctx.wants('forward'):
        cs = lattice_cases(2 if quick else 3, 'forward',
                           () if quick else MAPPINGS_T)
        ctx.explore('forward', FN, cs, engine='E1',
                    rule=f"lattice depth {2 if quick else 3} over "
                         f"{len(DOM)} parameters (model case, mapping, grid, "
                         "z-cells, values, permittivities, source kind, "
                         "receiver types, relative, frequencies, method, "
                         "radius, factor, minor, check_foci, merge, observed "
                         "data); non-trivial = at least one response computed",
                    time_cap=cap)
    if ctx.wants('gradient'):
        cs = lattice_cases(1 if quick else 2, 'gradient',
                           () if quick else MAPPINGS_T, 2 if quick else 3)
        ctx.explore('gradient', FN, cs, engine='E1',
                    rule=f"lattice depth {1 if quick else 2} over all "
                         f"parameters and depth {2 if quick else 3} over "
                         f"{GRAD_CORE}; observed data with NaN gaps "
                         "(default) or full; per case one fresh "
                         "layer-perturbed simulation per z-cell slab (and "
                         "per sigma_h / sigma_v)",
                    time_cap=cap, chunksize=1)
    if ctx.wants('weights'):
        ctx.explore('weights', FNW, weight_cases(not quick), engine='E1',
                    rule='full product grids x mapping x case x mu/eps x 7 '
                         'point pairs; inside each: method x 4 radii (one '
                         'selecting no cell) x factor x minor x check_foci x '
                         'merge on a laterally varying seeded-random model',
                    time_cap=cap)
