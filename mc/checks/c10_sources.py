"""C10 - sources inject exactly their nominal moment in nominal direction.

Engine E1 (bounded exhaustive enumeration against the real code).  Six
explorations, all through ``emg3d.get_source_field`` / ``emg3d.electrodes``:

* ``dipoles``  all ordered pairs of an electrode alphabet (per axis: boundary
               nodes, interior nodes, cell centre, 0.3 of a cell) on two
               stretched grids, x strengths {1, 2.5, 1+2j} x frequency
               {1, -1, None};
* ``wires``    all simple paths (and closed loops) of k electrodes over small
               sub-alphabets, through ``TxElectricWire``;
* ``points``   electric (and magnetic) point sources, position alphabet x
               angle alphabet x strengths x frequencies;
* ``conversions``  rotation / point_to_dipole / dipole_to_point round trips
               and ``Dipole`` built from its three coordinate formats;
* ``magnetic`` ``TxMagneticDipole``: closed planar square loop, vector area
               = length * direction, and its source field;
* ``dispatch`` raw tuples / lists / arrays handed to ``get_source_field``.

Reference computations (this file, independent of emg3d): Liang-Barsky
clipping of every segment against every cell; "touched" cells; the
distribution *documented* in ``get_source_field`` (per touched cell the
fraction of the source length, put on the cell's edges with the trilinear
weights of the piece's midpoint); component sums; transverse first moments;
Laplace parameter and mu_0 from scipy.constants.
"""
import itertools
import warnings

import numpy as np
from scipy.constants import mu_0

from .. import zoo

FN_DIP = 'mc.checks.c10_sources:case_dipole'
FN_WIRE = 'mc.checks.c10_sources:case_wire'
FN_PT = 'mc.checks.c10_sources:case_point'
FN_CONV = 'mc.checks.c10_sources:case_conv'
FN_MAG = 'mc.checks.c10_sources:case_mag'
FN_DISP = 'mc.checks.c10_sources:case_dispatch'

STRENGTHS = (1.0, 2.5, (1.0, 2.0), (3e-15, 2e-15))   # (re, im): 1+2j and a very weak complex current
FREQS = (1.0, -1.0, None)
COMBOS = [(s, f) for s in STRENGTHS for f in FREQS]
AZIMUTHS = (0.0, 90.0, 180.0, -90.0, 45.0, -135.0)
ELEVATIONS = (0.0, 90.0, -90.0, 30.0, -35.0)

TOL_VEC = 1e-9       # relative to the source length (DESIGN: 1e-9)
TOL_SCALE = 1e-13    # pure scaling by strength * (-s mu0)
TOL_GEO = 1e-12      # geometry of conversions / loops

# --------------------------------------------------------------------- grids
GRIDS = {
    # DESIGN: (3,3,3) with widths [1,2,1.5] x [2,1,1] x [1,1,3]
    'G1': {'h': ([1, 2, 1.5], [2, 1, 1], [1, 1, 3]), 'unit': 50.0,
           'origin': (-10.0, 3.0, -500.0)},
    # (4,3,5), seeded-random widths, non-round origin (node coordinates with
    # more than nine decimals, so that the rounding inside emg3d acts)
    'G2': {'shape': (4, 3, 5), 'w': ('rnd', 'rnd', 'rnd'), 'unit': 50.0,
           'origin': (-10.123456789012345, 3.3000000004, -500.7)},
    # G1 far away from the origin with small cells (UTM-like coordinates):
    # sources depend on positions RELATIVE to the nodes only
    'G3': {'h': ([1, 2, 1.5], [2, 1, 1], [1, 1, 3]), 'unit': 2.0,
           'origin': (512000.0, 6704000.25, -2000.0)},
}
_GRID = {}

# electrode alphabets: a token t = cell + fraction; t integer -> node t
ALPHA = {
    ('G1', 'quick'): ([0, 1, 1.5, 2.3, 3],)*3,
    ('G1', 'thorough'): ([0, 0.3, 1, 1.5, 2, 2.3, 3],)*3,
    ('G2', 'quick'): ([1, 1.3, 2.5, 4], [1, 1.3, 2.5, 3], [1, 1.3, 3.5, 5]),
    ('G3', 'quick'): ([0, 1, 1.5, 2.3],)*3,
    ('G3', 'thorough'): ([0, 0.3, 1, 1.5, 2, 2.3, 3],)*3,
    ('G2', 'thorough'): ([0, 1, 1.3, 2.5, 3, 4], [0, 1, 1.3, 2, 2.5, 3],
                         [0, 1, 1.3, 3.5, 4, 5]),
}
W27 = ([0, 1.3, 2],)*3          # wires: lower boundary, generic, node
W8 = ([1, 2.3],)*3              # wires: interior node, generic


def grid_of(name):
    if name not in _GRID:
        import emg3d
        spec = GRIDS[name]
        if 'h' in spec:
            h = [np.array(x, dtype=float)*spec['unit'] for x in spec['h']]
            g = emg3d.TensorMesh(h, origin=spec['origin'])
        else:
            g = zoo.mesh(spec)
        _GRID[name] = g
    return _GRID[name]


def nodes_of(grid):
    return [np.asarray(grid.nodes_x), np.asarray(grid.nodes_y),
            np.asarray(grid.nodes_z)]


def coord(grid, tok):
    """Token triple -> coordinates (nodes are taken bit-exactly)."""
    out = []
    for a, t in enumerate(tok):
        nd = nodes_of(grid)[a]
        i = int(np.floor(t))
        fr = t - i
        if fr == 0:
            out.append(float(nd[i]))
        else:
            out.append(float(nd[i] + fr*grid.h[a][i]))
    return out


# ------------------------------------------------------- reference geometry
def clip(p0, d, lo, hi, eps=0.0):
    """Liang-Barsky: parameter interval [t0, t1] (within [0, 1]) of
    p0 + t d inside the closed box [lo-eps, hi+eps]; None if empty."""
    t0, t1 = 0.0, 1.0
    for a in range(3):
        la, ha = lo[a] - eps, hi[a] + eps
        if d[a] == 0.0:
            if p0[a] < la or p0[a] > ha:
                return None
        else:
            ta = (la - p0[a])/d[a]
            tb = (ha - p0[a])/d[a]
            if ta > tb:
                ta, tb = tb, ta
            if ta > t0:
                t0 = ta
            if tb < t1:
                t1 = tb
            if t0 > t1:
                return None
    return t0, t1


def shapes(grid):
    nx, ny, nz = grid.shape_cells
    return (nx, ny+1, nz+1), (nx+1, ny, nz+1), (nx+1, ny+1, nz)


def candidate_cells(nd, lo, hi, eps):
    """Index range of cells whose closed interval meets [lo, hi]."""
    n = nd.size - 1
    i0 = int(np.searchsorted(nd, lo - eps, side='left')) - 1
    i1 = int(np.searchsorted(nd, hi + eps, side='right')) - 1
    return range(max(0, i0), min(n - 1, i1) + 1)


def ref_wire(grid, pts, eps=2e-9):
    """Reference for a wire through pts (n, 3).

    Returns (vec, allowed, ntouched): vec = three arrays with the documented
    distribution (sum over segments and touched cells of: length fraction of
    the piece inside the cell x segment vector x trilinear weights of the
    piece's midpoint on the cell's edges); allowed = boolean masks of the
    edges belonging to a cell whose closed box (grown by eps, which covers
    emg3d's rounding to nine decimals) meets a segment; ntouched = number of
    (segment, cell) contacts.
    """
    nd = nodes_of(grid)
    h = [np.asarray(x) for x in grid.h]
    sh = shapes(grid)
    vec = [np.zeros(s) for s in sh]
    allowed = [np.zeros(s, dtype=bool) for s in sh]
    ntouched = 0
    pts = np.asarray(pts, dtype=float)
    for p0, p1 in zip(pts[:-1], pts[1:]):
        d = p1 - p0
        lo_s = np.minimum(p0, p1)
        hi_s = np.maximum(p0, p1)
        rng_ = [candidate_cells(nd[a], lo_s[a], hi_s[a], eps)
                for a in range(3)]
        for k in rng_[2]:
            for j in rng_[1]:
                for i in rng_[0]:
                    idx = (i, j, k)
                    lo = [nd[a][idx[a]] for a in range(3)]
                    hi = [nd[a][idx[a]+1] for a in range(3)]
                    if clip(p0, d, lo, hi, eps) is None:
                        continue
                    ntouched += 1
                    allowed[0][i, j:j+2, k:k+2] = True
                    allowed[1][i:i+2, j, k:k+2] = True
                    allowed[2][i:i+2, j:j+2, k] = True
                    tt = clip(p0, d, lo, hi, 0.0)
                    if tt is None or not tt[1] > tt[0]:
                        continue
                    frac = tt[1] - tt[0]
                    mid = p0 + 0.5*(tt[0] + tt[1])*d
                    # a piece lying in a face / on an edge shared by several
                    # cells is shared equally (the far edges get weight 0)
                    mult = 1
                    for a in range(3):
                        if d[a] == 0.0 and (
                                (mid[a] == lo[a] and idx[a] > 0) or
                                (mid[a] == hi[a] and idx[a] < nd[a].size-2)):
                            mult *= 2
                    r = [(mid[a] - lo[a])/h[a][idx[a]] for a in range(3)]
                    e = [1.0 - x for x in r]
                    w = frac/mult
                    wy = (e[1], r[1])
                    wz = (e[2], r[2])
                    wx = (e[0], r[0])
                    for b in (0, 1):
                        for c_ in (0, 1):
                            vec[0][i, j+b, k+c_] += w*d[0]*wy[b]*wz[c_]
                            vec[1][i+b, j, k+c_] += w*d[1]*wx[b]*wz[c_]
                            vec[2][i+b, j+c_, k] += w*d[2]*wx[b]*wy[c_]
    return vec, allowed, ntouched


def in_top_face(grid, pts):
    """Segments lying completely in the upper boundary plane of an axis."""
    nd = nodes_of(grid)
    pts = np.asarray(pts, dtype=float)
    n = 0
    for p0, p1 in zip(pts[:-1], pts[1:]):
        if any(abs(p0[a] - nd[a][-1]) < 1e-9 and abs(p1[a] - nd[a][-1]) < 1e-9
               for a in range(3)):
            n += 1
    return n


def outside(grid, pts):
    """+1 clearly outside, 0 clearly inside (closed), -1 too close to call."""
    nd = nodes_of(grid)
    pts = np.asarray(pts, dtype=float)
    res = 0
    for a in range(3):
        over = max(nd[a][0] - pts[:, a].min(), pts[:, a].max() - nd[a][-1])
        if over > 1e-6:
            return 1
        if over > 1e-12*(1 + abs(nd[a]).max()):
            res = -1
    return res


def sval(freq):
    """Laplace parameter: f > 0 -> 2 i pi f; f < 0 -> |f| (real)."""
    if freq is None:
        return None
    return 2j*np.pi*freq if freq > 0 else float(-freq)


def cstrength(st):
    return complex(st[0], st[1]) if isinstance(st, (list, tuple)) else st


def rot_ref(az, el):
    a, e = np.deg2rad(az), np.deg2rad(el)
    return np.array([np.cos(a)*np.cos(e), np.sin(a)*np.cos(e), np.sin(e)])


class Recorder:
    """Collect 'Normalizing Source' warnings, silence expected noise."""

    def __enter__(self):
        self._cm = warnings.catch_warnings(record=True)
        self.rec = self._cm.__enter__()
        warnings.simplefilter('always')
        self._err = np.errstate(all='ignore')
        self._err.__enter__()
        return self

    def __exit__(self, *a):
        self._err.__exit__(*a)
        self._cm.__exit__(*a)

    def normalizing(self):
        return sum('Normalizing Source' in str(w.message) for w in self.rec)


def fxyz(f):
    return [np.asarray(f.fx), np.asarray(f.fy), np.asarray(f.fz)]


def fmt(x):
    return np.array2string(np.asarray(x), precision=12, separator=',')


# -------------------------------------------- shared: scaling by strength, s
def check_scaling(grid, make, combos, viol, count, label, desc=''):
    """Run get_source_field for the (strength, frequency) combos and compare
    each with (bare vector) * strength * (-s mu0).

    ``make(strength)`` -> source instance.  Returns (bare, nwarn, calls) with
    bare = the strength-1, frequency-None field of emg3d (three arrays) or
    None if that call failed (exception is re-raised by the caller's rules).
    """
    import emg3d
    nwarn = 0
    desc = f'{label} {desc}'
    with Recorder() as rec:
        bare_f = emg3d.get_source_field(grid, make(1.0), None)
        nwarn += rec.normalizing()
    bare = np.asarray(bare_f.field).copy()
    calls = 1
    if bare.dtype.kind != 'f' and label != 'magnetic-point':
        viol.append({'cls': 'bare-vector-not-real',
                     'what': f'{desc}: frequency=None returned dtype '
                             f'{bare.dtype}; documented "real-valued"'})
    scale = max(np.abs(bare).max(), 1e-300) if np.isfinite(bare).all() else 1.
    for st, fr in combos:
        s = cstrength(st)
        real_domain = fr is None or fr < 0
        if label == 'magnetic-point' and fr is None:
            real_domain = False      # that vector is created as complex
        try:
            with Recorder() as rec:
                f = emg3d.get_source_field(grid, make(s), fr)
                nwarn += rec.normalizing()
        except TypeError as exc:
            if isinstance(s, complex) and real_domain:
                # real-valued domain (Laplace / bare vector) cannot hold a
                # complex strength: rejected loudly -> counted, no violation
                count['complex_strength_rejected_in_real_domain'] = \
                    count.get('complex_strength_rejected_in_real_domain', 0)+1
                continue
            raise exc
        calls += 1
        if isinstance(s, complex) and real_domain:
            viol.append({'cls': 'complex-strength-silently-accepted',
                         'what': f'{desc}: strength {s} with frequency {fr} '
                                 f'gave dtype {f.field.dtype}'})
            continue
        got = np.asarray(f.field)
        sv = sval(fr)
        if label == 'magnetic-point':
            fac = s           # -(curl^T P^T) / (-s mu0) * strength * (-s mu0)
        else:
            fac = s if fr is None else s*(-(sv*mu_0))
        exp = bare*fac
        if not np.isfinite(bare).all():
            continue          # reported by the caller (narrow class)
        tol = (1e-9 if label == 'magnetic-point' else TOL_SCALE)
        err = np.abs(got - exp).max()/(abs(fac)*scale)
        if not err <= tol:
            i = int(np.argmax(np.abs(got - exp)))
            viol.append({'cls': 'field-not-vector-times-strength-times-smu0',
                         'what': f'{desc}: strength={s} frequency={fr}: rel. '
                                 f'error {err:.2e} at edge {i}',
                         'observed': got[i], 'expected': exp[i]})
        if f.frequency != (None if fr is None else abs(fr)) or f.sval != sv:
            viol.append({'cls': 'field-frequency-attribute-wrong',
                         'what': f'{desc}: frequency={fr}: field reports '
                                 f'{f.frequency}, s={f.sval}'})
        want = 'c' if (fr is not None and fr > 0) else None
        if want and got.dtype.kind != want:
            viol.append({'cls': 'field-dtype-wrong',
                         'what': f'{desc}: frequency={fr} dtype {got.dtype}'})
    return bare_f, nwarn, calls


# ----------------------------- shared: oracles on the bare vector of a wire
def check_wire_vector(grid, pts, bare_f, viol, label):
    """Sum / support / first moments / documented distribution of the bare
    vector of a wire with electrodes pts.  Returns (compared, ntouched,
    nnonzero)."""
    pts = np.asarray(pts, dtype=float)
    got = fxyz(bare_f)
    seg = np.diff(pts, axis=0)
    L = np.linalg.norm(seg, axis=1).sum()
    nd = nodes_of(grid)
    if not all(np.isfinite(g).all() for g in got):
        ntop = in_top_face(grid, pts)
        if ntop:
            viol.append({
                'cls': 'nan-source-for-segment-in-upper-boundary-face',
                'what': f'{label} {fmt(pts)}: {ntop} segment(s) lie in the '
                        'upper boundary plane of the grid; accepted without '
                        'error but the source vector is NaN',
                'observed': [float(np.nansum(g)) for g in got],
                'expected': (pts[-1] - pts[0])})
        else:
            viol.append({'cls': 'source-vector-not-finite',
                         'what': f'{label} {fmt(pts)}: NaN/inf in the source '
                                 'vector'})
        return 1, 0, 0
    ref, allowed, ntouched = ref_wire(grid, pts)
    compared = 0
    # 1. component sums = last - first electrode
    tot = np.array([g.sum() for g in got])
    exp = pts[-1] - pts[0]
    compared += 3
    if not np.abs(tot - exp).max() <= TOL_VEC*L + 2e-9:
        viol.append({'cls': 'moment-sum-differs-from-electrode-vector',
                     'what': f'{label} {fmt(pts)}: sum per component '
                             f'{fmt(tot)} != p_last - p_first {fmt(exp)}',
                     'observed': tot, 'expected': exp})
    # 2. support: only edges of touched cells
    nnz = 0
    for a in range(3):
        nz = np.abs(got[a]) > 1e-12*L
        nnz += int(nz.sum())
        bad = nz & ~allowed[a]
        compared += int(nz.size)
        if bad.any():
            i = tuple(int(x) for x in np.argwhere(bad)[0])
            viol.append({'cls': 'contribution-on-edge-of-untouched-cell',
                         'what': f'{label} {fmt(pts)}: {"xyz"[a]}-edge {i} '
                                 f'carries {got[a][i]:.3e} but no cell '
                                 'around it is touched by the wire',
                         'observed': got[a][i], 'expected': 0.0})
            break
    # 3. transverse first moments: the source stays where the wire is
    mids = 0.5*(pts[:-1] + pts[1:])
    ext = max(np.ptp(nd[a]) for a in range(3))
    for a in range(3):
        for b in range(3):
            if a == b:
                continue
            shp = [1, 1, 1]
            shp[b] = -1
            # coordinates relative to the first node (no cancellation for
            # grids far away from the origin)
            m_got = (got[a]*(nd[b] - nd[b][0]).reshape(shp)).sum()
            m_exp = (seg[:, a]*(mids[:, b] - nd[b][0])).sum()
            compared += 1
            if not abs(m_got - m_exp) <= TOL_VEC*L*ext + 1e-8*ext:
                viol.append({
                    'cls': 'first-moment-of-source-displaced',
                    'what': f'{label} {fmt(pts)}: sum of {"xyz"[a]}-'
                            f'component x {"xyz"[b]}-coordinate = '
                            f'{m_got:.9g}, wire gives {m_exp:.9g}',
                    'observed': m_got, 'expected': m_exp})
                break
        else:
            continue
        break
    # 4. documented distribution (length fraction per touched cell)
    err = max(np.abs(got[a] - ref[a]).max() for a in range(3))
    compared += sum(g.size for g in got)
    if not err <= TOL_VEC*L + 1e-9:
        a = int(np.argmax([np.abs(got[a] - ref[a]).max() for a in range(3)]))
        i = np.unravel_index(np.argmax(np.abs(got[a] - ref[a])), got[a].shape)
        i = tuple(int(x) for x in i)
        viol.append({'cls': 'distribution-differs-from-length-fractions',
                     'what': f'{label} {fmt(pts)}: {"xyz"[a]}-edge {i}: '
                             f'{got[a][i]:.12g} vs reference '
                             f'{ref[a][i]:.12g} (per-cell length fraction '
                             'with trilinear weights of the piece midpoint)',
                     'observed': got[a][i], 'expected': ref[a][i]})
    return compared, ntouched, nnz


def run_wire_like(grid, make, pts, combos, label):
    """Complete treatment of a dipole / wire / loop source."""
    viol, count = [], {}
    compared = 0
    out = outside(grid, pts)
    try:
        bare_f, nwarn, calls = check_scaling(grid, make, combos, viol, count,
                                             label, fmt(pts))
    except ValueError as exc:
        if 'outside grid' in str(exc) and out != 0:
            count['outside_grid_rejected'] = 1
            return {'viol': viol, 'compared': 1, 'transitions': 1,
                    'nontrivial': False, 'outcome': ('outside',),
                    'count': count}
        if 'outside grid' in str(exc):
            viol.append({'cls': 'source-inside-grid-rejected-as-outside',
                         'what': f'{label} {fmt(pts)}: all electrodes are '
                                 f'inside the (closed) grid, but: {exc}'})
            return {'viol': viol, 'compared': 1, 'nontrivial': True,
                    'outcome': ('rejected',)}
        raise
    if out == 1:
        viol.append({'cls': 'source-outside-grid-accepted',
                     'what': f'{label} {fmt(pts)}: electrode outside the '
                             'grid but no error'})
    k, ntouched, nnz = check_wire_vector(grid, pts, bare_f, viol, label)
    compared += k + calls
    ntop = in_top_face(grid, pts)
    if nwarn:
        count['normalizing_source_warnings' +
              ('_upper_boundary_face' if ntop else '')] = nwarn
    count['get_source_field_calls'] = calls
    d = np.asarray(pts[-1]) - np.asarray(pts[0])
    nzero = int((np.abs(d) < 1e-9).sum())
    return {'viol': viol, 'compared': compared, 'transitions': calls,
            'nontrivial': True, 'count': count,
            'outcome': (len(pts), ntouched, nzero, nwarn > 0)}


def rotating(i, k):
    """k of the nine (strength, frequency) combos, rotating with i."""
    return [COMBOS[(i*k + j) % len(COMBOS)] for j in range(k)]


# ------------------------------------------------------------------ dipoles
def case_dipole(c):
    import emg3d
    from emg3d import electrodes
    grid = grid_of(c['g'])
    pts = np.array([coord(grid, c['a']), coord(grid, c['b'])])

    def make(s):
        return emg3d.TxElectricDipole(pts, strength=s)

    combos = COMBOS if c.get('nc', 9) >= len(COMBOS) else rotating(c['i'], c['nc'])
    try:
        res = run_wire_like(grid, make, pts, combos, 'dipole')
    except ValueError as e:
        if 'identical' not in str(e):
            raise
        return {'viol': [{
            'cls': 'distinct-electrodes-rejected-as-identical',
            'what': f'dipole {fmt(pts)} (length '
                    f'{np.linalg.norm(pts[1]-pts[0]):.3f} m) refused: '
                    f'{str(e)[:120]}'}], 'compared': 1, 'nontrivial': True}
    # conversion round trip on this electrode pair
    az, el, ln = electrodes.dipole_to_point(pts)
    cen = pts.mean(axis=0)
    back = electrodes.point_to_dipole(np.r_[cen, az, el], ln)
    L = np.linalg.norm(pts[1] - pts[0])
    res['compared'] += 1
    if not np.abs(back - pts).max() <= TOL_GEO*(L + np.abs(pts).max()):
        res['viol'].append({
            'cls': 'dipole-point-dipole-round-trip-moves-electrodes',
            'what': f'electrodes {fmt(pts)} -> (az,el,len)=({az},{el},{ln}) '
                    f'-> {fmt(back)}', 'observed': back, 'expected': pts})
    if not (-180 < az <= 180 and -90 <= el <= 90):
        res['viol'].append({'cls': 'angles-out-of-documented-range',
                            'what': f'{fmt(pts)}: az={az}, el={el}'})
    return res


# -------------------------------------------------------------------- wires
def case_wire(c):
    import emg3d
    grid = grid_of(c['g'])
    pts = np.array([coord(grid, t) for t in c['p']])

    def make(s):
        return emg3d.TxElectricWire(pts, strength=s)

    return run_wire_like(grid, make, pts, rotating(c['i'], c['nc']), 'wire')


# ------------------------------------------------------------------- points
def case_point(c):
    import emg3d
    grid = grid_of(c['g'])
    p = coord(grid, c['p'])
    az, el = c['az'], c['el']
    co = (*p, az, el)
    magnetic = c.get('mag', False)
    label = 'magnetic-point' if magnetic else 'electric-point'
    cls_ = emg3d.TxMagneticPoint if magnetic else emg3d.TxElectricPoint

    def make(s):
        return cls_(co, strength=s)

    viol, count = [], {}
    bare_f, nwarn, calls = check_scaling(grid, make, COMBOS, viol, count,
                                         label, str(co))
    compared = calls
    got = fxyz(bare_f)
    u = rot_ref(az, el)
    nd = nodes_of(grid)
    cc = [np.asarray(grid.cell_centers_x), np.asarray(grid.cell_centers_y),
          np.asarray(grid.cell_centers_z)]
    if magnetic:
        # not covered by the statement beyond scaling / dispatch; a magnetic
        # point is a curl: every component sums to ... nothing nominal.
        return {'viol': viol, 'compared': compared, 'transitions': calls,
                'nontrivial': bool(np.abs(bare_f.field).max() > 0),
                'count': count,
                'outcome': ('mag', int((np.abs(bare_f.field) > 0).sum()))}
    # 1. sums = unit direction
    tot = np.array([g.sum().real for g in got])
    compared += 3
    if not np.abs(tot - u).max() <= 1e-12:
        viol.append({'cls': 'point-source-sum-differs-from-unit-direction',
                     'what': f'point {co}: sums {fmt(tot)} != '
                             f'(cos az cos el, sin az cos el, sin el) '
                             f'{fmt(u)}', 'observed': tot, 'expected': u})
    # 2. support: edges of the cells containing the point, and (trilinear
    #    interpolation between edge midpoints) their neighbours along the
    #    edge direction
    nnz = 0
    for a in range(3):
        ok = np.zeros(got[a].shape, dtype=bool)
        sl = []
        for b in range(3):
            cells = [i for i in range(nd[b].size - 1)
                     if nd[b][i] - 1e-9 <= p[b] <= nd[b][i+1] + 1e-9]
            if b == a:
                lo = max(0, min(cells) - 1)
                hi = min(nd[b].size - 2, max(cells) + 1)
            else:
                lo, hi = min(cells), max(cells) + 1
            sl.append(slice(lo, hi + 1))
        ok[tuple(sl)] = True
        nz = np.abs(got[a]) > 1e-14
        nnz += int(nz.sum())
        compared += nz.size
        if (nz & ~ok).any():
            i = tuple(int(x) for x in np.argwhere(nz & ~ok)[0])
            viol.append({'cls': 'point-contribution-on-remote-edge',
                         'what': f'point {co}: {"xyz"[a]}-edge {i} carries '
                                 f'{got[a][i]:.3e}', 'observed': got[a][i]})
    # 3. first moments: adjoint of an interpolation that is exact for
    #    linear functions reproduces the position of the point
    ext = max(np.ptp(x) for x in nd)
    clamped = 0
    for a in range(3):
        if abs(u[a]) < 1e-9:
            continue
        for b in range(3):
            if b == a:
                if not cc[a][0] <= p[a] <= cc[a][-1]:
                    clamped += 1    # outer half cell: no statement made
                    continue
                x = cc[a]
            else:
                x = nd[b]
            shp = [1, 1, 1]
            shp[b] = -1
            # relative to the first node (grids far from the origin)
            m_got = (got[a]*(x - nd[b][0]).reshape(shp)).sum()
            compared += 1
            if not abs(m_got - u[a]*(p[b] - nd[b][0])) <= 1e-11*ext + \
                    8*np.finfo(float).eps*abs(p[b]):
                viol.append({
                    'cls': 'point-source-displaced',
                    'what': f'point {co}: {"xyz"[a]}-component centred at '
                            f'{"xyz"[b]}={m_got/u[a]:.9g}, source at '
                            f'{p[b]:.9g}', 'observed': m_got/u[a],
                    'expected': p[b]})
    if clamped:
        count['point_in_outer_half_cell_components'] = clamped
    count['get_source_field_calls'] = calls
    return {'viol': viol, 'compared': compared, 'transitions': calls,
            'nontrivial': True, 'count': count,
            'outcome': ('pt', nnz, int((np.abs(u) < 1e-9).sum()))}


# -------------------------------------------------------------- conversions
def same_dir(az, el, az2, el2):
    return np.abs(rot_ref(az, el) - rot_ref(az2, el2)).max()


def case_conv(c):
    import emg3d
    from emg3d import electrodes
    grid = grid_of(c['g'])
    p = np.array(coord(grid, c['p']))
    az, el, L = c['az'], c['el'], c['L']
    viol = []
    compared = 0
    u = rot_ref(az, el)
    scale = L + np.abs(p).max()
    # rotation: degrees and radians
    r1 = electrodes.rotation(az, el)
    r2 = electrodes.rotation(np.deg2rad(az), np.deg2rad(el), deg=False)
    compared += 2
    if not max(np.abs(r1 - u).max(), np.abs(r2 - u).max()) <= 1e-15*4:
        viol.append({'cls': 'rotation-differs-from-spherical-definition',
                     'what': f'rotation({az},{el}) = {fmt(r1)} / rad '
                             f'{fmt(r2)}; expected {fmt(u)}',
                     'observed': r1, 'expected': u})
    # point -> dipole
    d = electrodes.point_to_dipole(np.r_[p, az, el], L)
    exp = np.array([p - 0.5*L*u, p + 0.5*L*u])
    compared += 1
    if not (d.shape == (2, 3) and
            np.abs(d - exp).max() <= TOL_GEO*scale):
        viol.append({'cls': 'point-to-dipole-wrong-electrodes',
                     'what': f'({fmt(p)},{az},{el}) L={L}: {fmt(d)}',
                     'observed': d, 'expected': exp})
    # dipole -> point -> dipole
    az2, el2, L2 = electrodes.dipole_to_point(d)
    back = electrodes.point_to_dipole(np.r_[d.mean(axis=0), az2, el2], L2)
    compared += 3
    if not np.abs(back - d).max() <= TOL_GEO*scale:
        viol.append({'cls': 'point-dipole-point-round-trip-moves-electrodes',
                     'what': f'({fmt(p)},{az},{el}) L={L}: -> {fmt(d)} -> '
                             f'({az2},{el2},{L2}) -> {fmt(back)}',
                     'observed': back, 'expected': d})
    if not (abs(L2 - L) <= TOL_GEO*scale and
            same_dir(az, el, az2, el2) <= 1e-9 and
            -180 < az2 <= 180 and -90 <= el2 <= 90):
        viol.append({'cls': 'dipole-to-point-wrong-angles',
                     'what': f'nominal ({az},{el},{L}) recovered as '
                             f'({az2},{el2},{L2})',
                     'observed': [az2, el2, L2], 'expected': [az, el, L]})
    if abs(el) < 90 and not (abs(el2 - el) <= 1e-7 and
                             abs((az2 - az + 180) % 360 - 180) <= 1e-7):
        viol.append({'cls': 'dipole-to-point-wrong-angles',
                     'what': f'nominal ({az},{el}) recovered as ({az2},{el2})',
                     'observed': [az2, el2], 'expected': [az, el]})
    # radians
    az3, el3, _ = electrodes.dipole_to_point(d, deg=False)
    compared += 1
    if not same_dir(az, el, np.rad2deg(az3), np.rad2deg(el3)) <= 1e-9:
        viol.append({'cls': 'dipole-to-point-wrong-angles',
                     'what': f'deg=False: ({az},{el}) -> ({az3},{el3}) rad'})
    # the three coordinate formats of Dipole
    objs = {
        'point': emg3d.TxElectricDipole((*p, az, el), length=L),
        'two-electrodes': emg3d.TxElectricDipole(exp),
        'flat': emg3d.TxElectricDipole(exp.ravel('F')),
        'list': emg3d.TxElectricDipole([list(exp[0]), list(exp[1])]),
    }
    for name, o in objs.items():
        compared += 4
        if not (o.points.shape == (2, 3) and
                np.abs(o.points - exp).max() <= TOL_GEO*scale):
            viol.append({'cls': 'dipole-formats-disagree-on-electrodes',
                         'what': f'format {name}: ({fmt(p)},{az},{el},{L}) '
                                 f'-> points {fmt(o.points)}',
                         'observed': o.points, 'expected': exp})
        if not (abs(o.length - L) <= TOL_GEO*scale and
                np.abs(o.center - p).max() <= TOL_GEO*scale and
                same_dir(az, el, o.azimuth, o.elevation) <= 1e-9):
            viol.append({'cls': 'dipole-attributes-disagree',
                         'what': f'format {name}: length {o.length}, centre '
                                 f'{fmt(o.center)}, az {o.azimuth}, el '
                                 f'{o.elevation}; nominal {L}, {fmt(p)}, '
                                 f'{az}, {el}'})
    if np.array_equal(objs['two-electrodes'].points, objs['flat'].points) \
            is False:
        viol.append({'cls': 'dipole-formats-disagree-on-electrodes',
                     'what': 'flat and (2,3) formats give different points'})
    # copies / dict round trip keep electrodes and strength
    o = emg3d.TxElectricDipole((*p, az, el), strength=2.5, length=L)
    o2 = o.copy()
    compared += 1
    if not (np.array_equal(o2.points, o.points) and o2.strength == 2.5
            and o2 == o):
        viol.append({'cls': 'dipole-copy-differs',
                     'what': f'copy of ({fmt(p)},{az},{el},{L}) differs'})
    return {'viol': viol, 'compared': compared, 'nontrivial': True,
            'outcome': (round(float(az2), 6), round(float(el2), 6))}


# ----------------------------------------------------------------- magnetic
def case_mag(c):
    import emg3d
    from emg3d import electrodes
    grid = grid_of(c['g'])
    p = np.array(coord(grid, c['p']))
    az, el, L = c['az'], c['el'], c['L']
    u = rot_ref(az, el)
    viol = []
    form = c['fmt']
    if form == 'point':
        co = (*p, az, el)
        kw = {'length': L}
    else:
        # a dipole of length L: the loop area is the dipole length
        d = np.array([p - 0.5*L*u, p + 0.5*L*u])
        co = d if form == 'two-electrodes' else d.ravel('F')
        kw = {}
    src = emg3d.TxMagneticDipole(co, strength=1.0, **kw)
    pts = np.asarray(src.points)
    side = np.sqrt(L)
    compared = 0
    what = f'TxMagneticDipole[{form}] centre {fmt(p)} az={az} el={el} L={L}'
    if pts.shape != (5, 3):
        viol.append({'cls': 'magnetic-dipole-not-five-points',
                     'what': f'{what}: points shape {pts.shape}'})
        return {'viol': viol, 'compared': 1}
    scale = side + np.abs(p).max()
    compared += 6
    if not np.array_equal(pts[0], pts[4]):
        viol.append({'cls': 'magnetic-loop-not-closed',
                     'what': f'{what}: first {fmt(pts[0])} last '
                             f'{fmt(pts[4])}'})
    rel = pts[:4] - p
    if not np.abs(rel @ u).max() <= TOL_GEO*scale:
        viol.append({'cls': 'magnetic-loop-not-planar-perpendicular',
                     'what': f'{what}: out-of-plane {fmt(rel @ u)}'})
    if not np.abs(pts[:4].mean(axis=0) - p).max() <= TOL_GEO*scale:
        viol.append({'cls': 'magnetic-loop-not-centred',
                     'what': f'{what}: centre {fmt(pts[:4].mean(axis=0))}'})
    sides = np.diff(pts, axis=0)
    sl = np.linalg.norm(sides, axis=1)
    dots = [abs(sides[i] @ sides[(i+1) % 4]) for i in range(4)]
    if not (np.abs(sl - side).max() <= 1e-11*scale and
            max(dots) <= 1e-11*scale*side):
        viol.append({'cls': 'magnetic-loop-not-square',
                     'what': f'{what}: side lengths {fmt(sl)} (nominal '
                             f'{side}), adjacent dot products {fmt(dots)}'})
    # vector area = 1/2 sum p_i x p_{i+1}: area, normal, orientation at once
    va = 0.5*sum(np.cross(rel[i], rel[(i+1) % 4]) for i in range(4))
    if not np.abs(va - L*u).max() <= 1e-11*max(L, 1.0):
        viol.append({'cls': 'magnetic-loop-vector-area-wrong',
                     'what': f'{what}: vector area {fmt(va)}; expected '
                             f'length x direction {fmt(L*u)}',
                     'observed': va, 'expected': L*u})
    for name, val, ref in (('length', src.length, L),):
        if form == 'point' and not abs(val - ref) <= TOL_GEO*scale:
            viol.append({'cls': 'magnetic-dipole-attributes-disagree',
                         'what': f'{what}: {name} {val} != {ref}'})

    # the source field of the loop
    def make(s):
        return emg3d.TxMagneticDipole(co, strength=s, **kw)

    res = run_wire_like(grid, make, pts, rotating(c['i'], 3), 'magnetic-loop')
    res['viol'] = viol + res['viol']
    res['compared'] += compared
    # same loop from point_to_square_loop directly
    direct = electrodes.point_to_square_loop(np.r_[p, az, el], L)
    if form == 'point' and not np.array_equal(direct, pts):
        res['viol'].append({'cls': 'magnetic-dipole-not-its-square-loop',
                            'what': f'{what}: points differ from '
                                    'point_to_square_loop'})
    return res


# ----------------------------------------------------------------- dispatch
def case_dispatch(c):
    """Raw coordinates to get_source_field == the corresponding Tx* class."""
    import emg3d
    grid = grid_of(c['g'])
    pts = np.array([coord(grid, t) for t in c['p']])
    st = cstrength(c['st'])
    fr = c['fr']
    kind = c['kind']
    cen = pts[:2].mean(axis=0)
    viol = []
    with Recorder():
        if kind == 'array23':
            raw, kw = pts[:2], {'strength': st}
            ref = emg3d.TxElectricDipole(pts[:2], strength=st)
        elif kind == 'flat-tuple':
            raw, kw = tuple(pts[:2].ravel('F')), {'strength': st}
            ref = emg3d.TxElectricDipole(pts[:2], strength=st)
        elif kind == 'point-list':
            raw = [*cen, c['az'], c['el']]
            kw = {'strength': st, 'length': c['L']}
            ref = emg3d.TxElectricDipole(raw, strength=st, length=c['L'])
        elif kind == 'point-default':
            raw, kw = (*cen, c['az'], c['el']), {}
            st = 1.0       # documented defaults: strength 1 A, length 1 m
            ref = emg3d.TxElectricDipole(raw, strength=1.0, length=1.0)
        elif kind == 'magnetic':
            raw = (*cen, c['az'], c['el'])
            kw = {'strength': st, 'length': c['L'], 'electric': False}
            ref = emg3d.TxMagneticDipole(raw, strength=st, length=c['L'])
        elif kind == 'wire':
            raw, kw = pts.tolist(), {'strength': st}
            ref = emg3d.TxElectricWire(pts, strength=st)
        else:
            raise ValueError(kind)
        f1 = emg3d.get_source_field(grid, raw, fr, **kw)
        f2 = emg3d.get_source_field(grid, ref, fr)
        f3 = ref.get_field(grid, fr)
    if not (np.array_equal(f1.field, f2.field) and
            np.array_equal(f3.field, f2.field) and
            f1.frequency == f2.frequency):
        viol.append({'cls': 'raw-coordinates-dispatch-differs-from-class',
                     'what': f'{kind} {raw} strength={st} frequency={fr}: '
                             'field differs from the Tx* instance',
                     'observed': np.abs(f1.field - f2.field).max()})
    # and it is a source of the right size: sum = strength * vector * -s mu0
    vec = ref.points[-1] - ref.points[0]
    fac = st if fr is None else st*(-(sval(fr)*mu_0))
    tot = np.array([x.sum() for x in fxyz(f1)])
    L = max(np.linalg.norm(np.diff(ref.points, axis=0), axis=1).sum(), 1e-9)
    if not np.abs(tot - fac*vec).max() <= (TOL_VEC*L + 2e-9)*abs(fac):
        viol.append({'cls': 'moment-sum-differs-from-electrode-vector',
                     'what': f'dispatch {kind} {raw} strength={st} '
                             f'frequency={fr}: sums {fmt(tot)} expected '
                             f'{fmt(fac*vec)}',
                     'observed': tot, 'expected': fac*vec})
    return {'viol': viol, 'compared': 4, 'nontrivial': True,
            'outcome': (kind, type(ref).__name__, str(f1.field.dtype))}


# -------------------------------------------------------------- enumeration
def tokens(alpha):
    return list(itertools.product(*alpha))


def dipole_cases(tier):
    out = []
    for g in ('G1', 'G2', 'G3'):
        pts = tokens(ALPHA[(g, tier)])
        for a in pts:
            for b in pts:
                if a != b:
                    nc = (3 if g != 'G2' else 4) if tier == 'quick' else 9
                    out.append({'g': g, 'a': a, 'b': b, 'i': len(out),
                                'nc': nc})
    return out


def paths(pts, k, closed=False):
    for p in itertools.permutations(pts, k):
        yield list(p) + ([p[0]] if closed else [])


def wire_cases(tier):
    out = []
    w27, w8 = tokens(W27), tokens(W8)

    def add(it, nc, g='G1'):
        for p in it:
            out.append({'g': g, 'p': p, 'i': len(out), 'nc': nc})

    # wires on the grid far from the origin
    add(paths(w8, 3), 2, 'G3')
    add(paths(w8, 4, closed=True), 1, 'G3')
    if tier == 'quick':
        add(paths(w27, 2), 3)
        add(paths(w27, 3), 2)
        for k in (3, 4):
            add(paths(w8, k), 2)
            add(paths(w8, k, closed=True), 2)
    else:
        add(paths(w27, 2), 3)
        add(paths(w27, 3), 3)
        add(paths(w27, 3, closed=True), 2)
        add(paths(w27, 4), 1)
        for k in range(3, 9):
            add(paths(w8, k), 1)
            add(paths(w8, k, closed=True), 1)
    return out


def point_cases(tier):
    out = []
    for g in ('G1', 'G2', 'G3'):
        for p in tokens(ALPHA[(g, tier)]):
            for az in AZIMUTHS:
                for el in ELEVATIONS:
                    out.append({'g': g, 'p': p, 'az': az, 'el': el})
    # magnetic points: scaling / dispatch only; interior positions (the
    # discretize interpolation is not defined on the outermost faces)
    mp = tokens(([1, 1.5, 2.3], [1, 1.5, 1.3], [1, 1.5, 1.3]))
    for p in mp:
        for az, el in ((0., 0.), (90., 0.), (0., 90.), (45., 30.),
                       (-135., -35.)):
            out.append({'g': 'G1', 'p': p, 'az': az, 'el': el, 'mag': True})
    return out


def conv_cases(tier):
    out = []
    pos = tokens(([0, 1.5, 2.3],)*3) if tier == 'quick' else \
        tokens(ALPHA[('G1', 'quick')])
    azs = AZIMUTHS + ((135.0, -45.0, 179.0, -179.0, 1e-3) if tier != 'quick'
                      else (179.0,))
    els = ELEVATIONS + ((89.0, -89.0, 60.0) if tier != 'quick' else (89.0,))
    for p in pos:
        for az in azs:
            for el in els:
                for L in (1.0, 100.0, 0.37):
                    out.append({'g': 'G1', 'p': p, 'az': az, 'el': el,
                                'L': L})
    return out


def mag_cases(tier):
    out = []
    # centres: lower boundary / interior node / generic / upper boundary
    pos = tokens(([0, 1, 1.5, 2.3], [1, 1.3, 3], [1, 1.5, 2.3]))
    if tier != 'quick':
        pos = tokens(ALPHA[('G1', 'quick')])
    for p in pos:
        for az in AZIMUTHS:
            for el in ELEVATIONS:
                for L, form in ((100.0, 'point'), (3600.0, 'two-electrodes'),
                                (37.0, 'flat')):
                    out.append({'g': 'G1', 'p': p, 'az': az, 'el': el,
                                'L': L, 'fmt': form, 'i': len(out)})
    return out


def dispatch_cases(tier):
    out = []
    pairs = [((1, 1.5, 0), (2.3, 1, 1.5), (1.5, 2.3, 2.3), (0, 1, 1)),
             ((1.5, 1.5, 1.5), (2.3, 1.5, 1.5), (2.3, 2.3, 1), (1, 1, 1))]
    for p in pairs:
        for st in STRENGTHS:
            for fr in FREQS:
                if isinstance(st, tuple) and (fr is None or fr < 0):
                    continue
                for kind in ('array23', 'flat-tuple', 'point-list',
                             'point-default', 'magnetic', 'wire'):
                    for az, el in ((0., 0.), (45., 30.), (180., -90.)):
                        if kind in ('array23', 'flat-tuple', 'wire') and az:
                            continue
                        out.append({'g': 'G1', 'p': p, 'st': st, 'fr': fr,
                                    'kind': kind, 'az': az, 'el': el,
                                    'L': 20.0})
    return out


# ------------------------------------------- one grid object, moved in place
FN_MOVE = 'mc.checks.c10_sources:case_moved'
MOVES = ((75.0, -60.0, 45.0), (-300.0, 0.0, 0.0), (0.25, 0.25, -0.25),
         (5e5, 6.7e6, -1500.0))


def case_moved(c):
    """The same TensorMesh OBJECT is used for a source field, re-positioned
    in place (grid.origin = ...), and used again: the second field equals the
    one computed on a newly created grid at the new position (nothing of the
    first use may stay with the grid object)."""
    import emg3d
    spec = GRIDS['G1']
    h = [np.array(x, dtype=float)*spec['unit'] for x in spec['h']]
    grid = emg3d.TensorMesh(h, origin=spec['origin'])
    ta, tb = c['a'], c['b']
    viol, compared = [], 0
    pts0 = np.array([coord(grid, ta), coord(grid, tb)])
    emg3d.get_source_field(grid, emg3d.TxElectricDipole(pts0), 1.0)
    for k, mv in enumerate([MOVES[i] for i in c['moves']]):
        grid.origin = np.array(grid.origin) + np.array(mv)
        fresh = emg3d.TensorMesh(h, origin=tuple(grid.origin))
        pts = np.array([coord(fresh, ta), coord(fresh, tb)])
        src = emg3d.TxElectricDipole(pts, strength=2.0)
        try:
            got = emg3d.get_source_field(grid, src, 1.0).field
        except ValueError as e:
            viol.append({'cls': 'source-on-moved-grid-refused',
                         'what': f'move {k} by {mv}: {str(e)[:100]}'})
            break
        want = emg3d.get_source_field(fresh, src, 1.0).field
        compared += 1
        sc = np.abs(want).max()
        if not np.abs(got - want).max() <= 1e-9*sc:
            viol.append({
                'cls': 'source-field-depends-on-earlier-use-of-the-grid',
                'what': f'dipole tokens {ta}->{tb}, grid object moved '
                        f'{k+1}x (last by {mv}): differs from the field on a '
                        f'new grid by {np.abs(got - want).max()/sc:.2e}'})
            break
    return {'viol': viol, 'compared': compared,
            'transitions': len(c['moves']) + 1, 'nontrivial': True,
            'outcome': (len(c['moves']), bool(viol))}


def moved_cases(tier):
    toks = tokens(([0, 1.5, 2.3, 3],)*3)
    pairs = [(a, b) for a in toks[::5] for b in toks[::7] if a != b]
    if tier == 'quick':
        pairs = pairs[::3]
    out = []
    for a, b in pairs:
        for mv in itertools.permutations(range(len(MOVES)), 2):
            out.append({'a': a, 'b': b, 'moves': list(mv)})
    return out


def prepare(ctx):
    """Import emg3d (and build the grids) once in the parent; the forked
    workers inherit the loaded modules."""
    import emg3d  # noqa: F401
    import discretize  # noqa: F401
    for g in GRIDS:
        grid = grid_of(g)
        grid.edge_curl  # noqa: B018  (cached by discretize)


def run(ctx):
    prepare(ctx)
    ctx.assume(
        "grids: (3,3,3) with widths [1,2,1.5]x[2,1,1]x[1,1,3] (x 50 m) and "
        "(4,3,5) with seeded-random widths and a non-round origin",
        "electrode positions per axis from {lower boundary node, interior "
        "nodes, cell centre, 0.3 of a cell, upper boundary node}; angles "
        "from the alphabet of DESIGN 1.3 (+ a few near-degenerate ones in "
        "the conversion exploration)",
        "a complex strength in a real-valued domain (Laplace, frequency=None) "
        "is rejected by emg3d with a TypeError; this is counted "
        "(complex_strength_rejected_in_real_domain), not flagged",
        "'Normalizing Source' warnings are counted, not flagged",
        "tolerances: 1e-9 x source length for sums / distribution (emg3d "
        "rounds coordinates to 1e-9 m), 1e-13 for the pure scaling by "
        "strength x (-s mu0), 1e-12 for conversion geometry",
        "wires: quick = all simple paths of 2..3 electrodes over a 27-point "
        "and 3..4 (+closed) over an 8-point alphabet; thorough = 2..4 over "
        "27 points, 3..8 (+closed) over 8 points")
    cap = ctx.budget
    q = ctx.quick
    if ctx.wants('moved-grid'):
        ctx.explore('moved-grid', FN_MOVE, moved_cases(ctx.tier), engine='E2',
                    rule='dipoles on ONE TensorMesh object that is used, '
                         'moved in place (all ordered pairs of 4 moves) and '
                         'used again; equals the field on a newly created '
                         'grid at the same position',
                    time_cap=cap or (160 if q else 400))
    if ctx.wants('dipoles'):
        ctx.explore('dipoles', FN_DIP, dipole_cases(ctx.tier), engine='E1',
                    rule='all ordered pairs of the electrode alphabet on two '
                         'grids, each with the bare vector and 3 strengths x '
                         '3 frequencies (quick: 3 or 4 of the 9, '
                         'rotating with the case index); '
                         'non-trivial = a source vector was produced',
                    time_cap=cap or (280 if q else 1000))
    if ctx.wants('wires'):
        ctx.explore('wires', FN_WIRE, wire_cases(ctx.tier), engine='E1',
                    rule='all simple paths / closed loops of k electrodes '
                         'over sub-alphabets (27 and 8 points), rotating '
                         '(strength, frequency) combinations',
                    time_cap=cap or (280 if q else 1400))
    if ctx.wants('points'):
        ctx.explore('points', FN_PT, point_cases(ctx.tier), engine='E1',
                    rule='position alphabet x azimuths x elevations, each '
                         'with 3 strengths x 3 frequencies (+ magnetic points '
                         'at interior positions)',
                    time_cap=cap or (160 if q else 400))
    if ctx.wants('conversions'):
        ctx.explore('conversions', FN_CONV, conv_cases(ctx.tier),
                    engine='E1',
                    rule='centres x azimuths x elevations x lengths: '
                         'rotation, point<->dipole round trips, three '
                         'Dipole formats',
                    time_cap=cap or (120 if q else 240))
    if ctx.wants('magnetic'):
        ctx.explore('magnetic', FN_MAG, mag_cases(ctx.tier), engine='E1',
                    rule='centres x azimuths x elevations x (length, format):'
                         ' loop geometry and loop source field; non-trivial '
                         '= loop inside the grid',
                    time_cap=cap or (160 if q else 400))
    if ctx.wants('dispatch'):
        ctx.explore('dispatch', FN_DISP, dispatch_cases(ctx.tier),
                    engine='E1',
                    rule='raw tuple / list / ndarray inputs of every '
                         'documented shape x strengths x frequencies',
                    time_cap=cap or 30)
