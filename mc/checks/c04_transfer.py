"""C04 - restriction = prolongation^T; coarse model conserves volumes.

E1: all seven coarsening patterns x all small fine shapes x width profiles.
The real solver.restriction is applied to the full fine-edge basis and the
real solver.prolongation to the full coarse-edge basis, giving the complete
matrices R and P, which are compared with each other and with a reference
prolongation assembled from node coordinates (piecewise constant along the
edge, bilinear across).
"""
import itertools

import numpy as np
import scipy.sparse as sp

from .. import zoo, impl
from ..refmodel import fit

FN = 'mc.checks.c04_transfer:case'
FN_MODEL = 'mc.checks.c04_transfer:case_model'

# pattern -> directions that are coarsened
COARSENED = {0: (0, 1, 2), 1: (1, 2), 2: (0, 2), 3: (0, 1),
             4: (0,), 5: (1,), 6: (2,)}


def interp_1d(nodes, coarsen):
    """fine nodes x coarse nodes linear interpolation (identity if not
    coarsened); coarse nodes = every second fine node."""
    nf = len(nodes)
    if not coarsen:
        return sp.identity(nf, format='csr'), nodes
    cn = nodes[::2]
    W = sp.lil_matrix((nf, len(cn)))
    for q in range(nf):
        if q % 2 == 0:
            W[q, q//2] = 1.0
        else:
            Q = (q-1)//2
            d = cn[Q+1] - cn[Q]
            W[q, Q] = (cn[Q+1] - nodes[q])/d
            W[q, Q+1] = (nodes[q] - cn[Q])/d
    return W.tocsr(), cn


def const_1d(ncell, coarsen):
    """fine cells x coarse cells piecewise-constant injection."""
    if not coarsen:
        return sp.identity(ncell, format='csr')
    C = sp.lil_matrix((ncell, ncell//2))
    for i in range(ncell):
        C[i, i//2] = 1.0
    return C.tocsr()


def p_reference(grid, pattern):
    n = tuple(grid.shape_cells)
    nodes = [grid.nodes_x, grid.nodes_y, grid.nodes_z]
    co = [d in COARSENED[pattern] for d in range(3)]
    W = [interp_1d(nodes[d], co[d])[0] for d in range(3)]
    C = [const_1d(n[d], co[d]) for d in range(3)]
    blocks = []
    for d in range(3):
        ops = [C[o] if o == d else W[o] for o in range(3)]
        blocks.append(sp.kron(ops[2], sp.kron(ops[1], ops[0])))
    P = sp.block_diag(blocks, format='csr')
    cshape = tuple(n[d]//2 if co[d] else n[d] for d in range(3))
    return P, cshape


def case(c):
    import emg3d
    from emg3d import solver
    spec = {'shape': c['shape'], 'w': c['w']}
    for k in ('origin', 'unit'):
        if c.get(k) is not None:
            spec[k] = c[k]
    grid = zoo.mesh(spec)
    pattern = c['pattern']
    model = zoo.model(grid, c['model'])
    freq = c['freq']
    vm, sfield = impl.vmodel_and_sfield(model, freq)
    dtype = sfield.field.dtype
    n = tuple(grid.shape_cells)
    Nf = sum(fit.nedges(n))
    fi = fit.interior_mask(n)
    viol = []
    compared = 0

    def V(cls, what, **kw):
        viol.append(dict(cls=cls, what=what, **kw))

    Pref, cshape = p_reference(grid, pattern)
    Pref = Pref.toarray()
    # weights are ratios of differences of node coordinates: their rounding
    # error grows with |coordinate| / width (far-away origins, tiny cells)
    wtol = max(1e-13, 64*np.finfo(float).eps*max(
        np.abs(x).max()/np.diff(x).min()
        for x in (grid.nodes_x, grid.nodes_y, grid.nodes_z)))
    Nc = sum(fit.nedges(cshape))
    ci = fit.interior_mask(cshape)

    # --- restriction on the full fine basis
    R = np.zeros((Nc, Nf))
    res = emg3d.Field(grid, dtype=dtype, frequency=freq)
    first = None
    for j in range(Nf):
        res.field[:] = 0
        res.field[j] = 1.0
        cm, cs, ce = solver.restriction(vm, sfield, res, pattern)
        if first is None:
            first = (cm, cs, ce)
        if cs.field.size != Nc:
            V('coarse-field-size', f'{cs.field.size} != {Nc}')
            return {'viol': viol}
        R[:, j] = cs.field.real
    compared += Nf
    cm, cs, ce = first
    # coarse grid = every second node in coarsened directions
    nodes = [grid.nodes_x, grid.nodes_y, grid.nodes_z]
    cnodes = [cm.grid.nodes_x, cm.grid.nodes_y, cm.grid.nodes_z]
    for d in range(3):
        want = nodes[d][::2] if d in COARSENED[pattern] else nodes[d]
        if len(want) != len(cnodes[d]) or not np.allclose(
                want, cnodes[d], rtol=1e-13, atol=0):
            V('coarse-grid-nodes', f'direction {d}: coarse nodes are not '
              'every second fine node / all nodes')
    # coarse e-field zero with source dtype; coarse source dtype
    if ce.field.dtype != dtype or np.count_nonzero(ce.field) or \
            cs.field.dtype != dtype:
        V('coarse-field-init', 'coarse e-field not zero / wrong dtype')
    if ce.field.size != Nc:
        V('coarse-field-size', 'coarse e-field size')
    # coarse material parameters = sum of children
    st = [2 if d in COARSENED[pattern] else 1 for d in range(3)]
    for name in ('eta_x', 'eta_y', 'eta_z', 'zeta'):
        fine = getattr(vm, name)
        ref = np.zeros(cshape, dtype=fine.dtype)
        for a, b, cc in itertools.product(range(st[0]), range(st[1]),
                                          range(st[2])):
            ref += fine[a::st[0], b::st[1], cc::st[2]]
        got = getattr(cm, name)
        compared += 1
        if got.shape != ref.shape or not np.allclose(got, ref, rtol=1e-13,
                                                     atol=0):
            V('coarse-parameter-not-sum-of-children', f'{name}, pattern '
              f'{pattern}')
        elif not abs(got.sum() - fine.sum()) <= 1e-12*abs(fine.sum()):
            V('coarse-parameter-total-not-conserved', name)

    # --- prolongation on the full coarse basis
    P = np.zeros((Nf, Nc))
    cgrid = cm.grid
    cef = emg3d.Field(cgrid, dtype=dtype, frequency=freq)
    ef = emg3d.Field(grid, dtype=dtype, frequency=freq)
    for k in range(Nc):
        cef.field[:] = 0
        cef.field[k] = 1.0
        ef.field[:] = 0
        solver.prolongation(ef, cef, pattern)
        P[:, k] = ef.field.real
    compared += Nc
    # P equals the reference on interior rows, zero on boundary rows
    perr = np.abs(P[fi] - Pref[fi]).max()
    if not perr <= wtol:
        i, j = np.unravel_index(np.argmax(np.abs(P[fi] - Pref[fi])),
                                P[fi].shape)
        V('prolongation-differs-from-reference',
          f'max entry error {perr:.2e} (pattern {pattern}); fine interior '
          f'row {np.flatnonzero(fi)[i]}, coarse col {j}',
          observed=P[fi][i, j], expected=Pref[fi][i, j])
    if np.abs(P[~fi]).max() != 0:
        V('prolongation-touches-boundary', 'non-zero row of a boundary edge')
    if P.min() < 0:
        V('prolongation-negative-weight', f'min weight {P.min():.2e}')
    rs = np.abs(P[fi].sum(axis=1) - 1).max()
    if not rs <= wtol:
        V('prolongation-not-partition-of-unity',
          f'max |row sum - 1| = {rs:.2e}')
    # R = P^T on interior x interior
    rerr = np.abs(R[np.ix_(ci, fi)] - P[np.ix_(fi, ci)].T).max()
    if not rerr <= wtol:
        V('restriction-not-transpose-of-prolongation',
          f'max |R - P^T| = {rerr:.2e} (pattern {pattern})')
    # adds, never touches boundary (sentinels), complex linearity
    e0 = zoo.random_field(grid, 'e0', dtype, pec=False)
    cvec = zoo.random_field(cgrid, 'c', dtype)
    ef = emg3d.Field(grid, data=e0.copy(), frequency=freq)
    solver.prolongation(ef, emg3d.Field(cgrid, data=cvec.copy(),
                                        frequency=freq), pattern)
    want = e0 + P @ cvec
    aerr = np.abs(ef.field - want)[fi].max()/np.abs(want).max()
    if not aerr <= 1e-13:
        V('prolongation-does-not-add', f'e + P c differs by {aerr:.2e}')
    if not np.array_equal(np.array(ef.field)[~fi], e0[~fi]):
        V('prolongation-touches-boundary', 'sentinel boundary value changed')
    rv = zoo.random_field(grid, 'r', dtype)
    _, cs2, _ = solver.restriction(
        vm, sfield, emg3d.Field(grid, data=rv.copy(), frequency=freq),
        pattern)
    want = R @ rv
    lerr = np.abs(cs2.field - want)[ci].max()/np.abs(want).max()
    compared += 2
    if not lerr <= 1e-13:
        V('restriction-not-linear', f'R v differs by {lerr:.2e}')
    # the kernel itself, called with pre-allocated output arrays that still
    # hold the numbers of an earlier use ('pre-allocated empty arrays'): it
    # must overwrite its output, not build on what it finds there
    from emg3d import core
    wx, wy, wz = solver._get_restriction_weights(grid, cgrid, pattern)
    outk = emg3d.Field(cgrid, data=zoo.random_field(cgrid, 'junk', dtype,
                                                    pec=True)*3.3,
                       frequency=freq)
    rin = emg3d.Field(grid, data=rv.copy(), frequency=freq)
    core.restrict(outk.fx, outk.fy, outk.fz, rin.fx, rin.fy, rin.fz, wx, wy,
                  wz, pattern)
    kerr = np.abs(outk.field - cs2.field)[ci].max()/np.abs(want).max()
    compared += 1
    if not kerr <= wtol:
        V('restrict-kernel-depends-on-output-array-content',
          f'core.restrict on a re-used output array differs from the result '
          f'on a zero array by {kerr:.2e} (pattern {pattern})')
    return {'viol': viol, 'compared': compared, 'transitions': Nf + Nc + 2,
            'nontrivial': bool(ci.any()),
            'outcome': (pattern, int(ci.sum()) > 10)}


def case_model(c):
    """Coarse grid and coarse material parameters over several levels: the
    real restriction() is applied repeatedly with a sequence of patterns; on
    every level each of eta_x, eta_y, eta_z, zeta must be the sum of its
    fine-cell children, computed by the checker from the FINEST level
    (independent VolumeModel reading: direction-dependent conductivity per
    anisotropy case), and the coarse nodes every second node."""
    import emg3d
    from emg3d import solver
    grid = zoo.mesh({'shape': c['shape'], 'w': c['w']})
    model = zoo.model(grid, c['model'])
    freq = c['freq']
    vm, sfield = impl.vmodel_and_sfield(model, freq)
    viol, compared = [], 0
    # reference fine-level parameters from the model itself
    from scipy.constants import epsilon_0, mu_0
    sval = zoo.sval_of(freq)
    vol = grid.cell_volumes.reshape(grid.shape_cells, order='F')
    case_ = c['model']['case']
    cond = {'x': model.property_x,
            'y': model.property_y if case_ in ('HTI', 'triaxial')
            else model.property_x,
            'z': model.property_z if case_ in ('VTI', 'triaxial')
            else model.property_x}
    eps = model.epsilon_r
    mu = model.mu_r
    ref0 = {}
    for d in 'xyz':
        sig = cond[d] + (sval*epsilon_0*eps if eps is not None else 0)
        ref0['eta_'+d] = -sval*mu_0*vol*sig
    ref0['zeta'] = vol/mu if mu is not None else vol
    for name, r0 in ref0.items():
        compared += 1
        got = getattr(vm, name)
        if not np.allclose(got, r0, rtol=1e-13, atol=0):
            viol.append({'cls': 'fine-volume-model-differs-from-definition',
                         'what': f'{name} on the fine level ({c["model"]})'})
    cur = {k: np.array(v) for k, v in ref0.items()}
    nodes = [grid.nodes_x, grid.nodes_y, grid.nodes_z]
    res = emg3d.Field(grid, dtype=sfield.field.dtype, frequency=freq)
    cm, cs = vm, sfield
    for lev, pattern in enumerate(c['patterns']):
        shape = tuple(cm.grid.shape_cells) if hasattr(cm, 'grid') else \
            tuple(cur['zeta'].shape)
        if any(shape[d] % 2 or shape[d] < 4 for d in COARSENED[pattern]):
            break
        cm, cs, res = solver.restriction(cm, cs, res, pattern)
        st = [2 if d in COARSENED[pattern] else 1 for d in range(3)]
        for d in range(3):
            if st[d] == 2:
                nodes[d] = nodes[d][::2]
        cn = [cm.grid.nodes_x, cm.grid.nodes_y, cm.grid.nodes_z]
        for d in range(3):
            compared += 1
            if len(cn[d]) != len(nodes[d]) or not np.allclose(
                    cn[d], nodes[d], rtol=1e-13, atol=0):
                viol.append({'cls': 'coarse-grid-nodes',
                             'what': f'level {lev+1}, direction {d}'})
        for name in list(cur):
            fine = cur[name]
            ref = np.zeros(tuple(fine.shape[d]//st[d] for d in range(3)),
                           dtype=fine.dtype)
            for a, b, cc in itertools.product(range(st[0]), range(st[1]),
                                              range(st[2])):
                ref += fine[a::st[0], b::st[1], cc::st[2]]
            cur[name] = ref
            got = getattr(cm, name)
            compared += 1
            if got.shape != ref.shape or not np.allclose(
                    got, ref, rtol=1e-12, atol=0):
                viol.append({
                    'cls': 'coarse-parameter-not-sum-of-children',
                    'what': f'{name}, level {lev+1} (patterns '
                            f'{c["patterns"][:lev+1]}), model {c["model"]}',
                    'observed': got, 'expected': ref})
        if viol:
            break
    return {'viol': viol, 'compared': compared,
            'transitions': len(c['patterns']), 'nontrivial': compared > 4,
            'outcome': (c['model'].get('case'), tuple(c['patterns']),
                        tuple(cur['zeta'].shape))}


def shapes_for(pattern, quick):
    cz = (4, 6) if quick else (4, 6, 8)
    nz = (2, 3, 4, 5)
    doms = [cz if d in COARSENED[pattern] else nz for d in range(3)]
    return list(itertools.product(*doms))


def prepare(ctx):
    impl.warm()


def run(ctx):
    prepare(ctx)
    q = ctx.quick
    ctx.assume(
        "fine shapes: coarsened directions 4, 6 (8 thorough) cells, other "
        "directions 2..5 cells; stretched widths from the alphabets",
        "the reference prolongation is linear interpolation in node "
        "coordinates (bilinear across the edge) and injection along the edge",
        "tolerance 1e-13 absolute on weights in [0, 1]")
    cs = []
    for pattern in range(7):
        for sh in shapes_for(pattern, q):
            for w in (('mix', 'rnd') if q else ('mix', 'rnd', 'alt', 'uni')):
                for f, m in ((-5.0, {'case': 'triaxial', 'prof': 'rnd',
                                     'mu_r': True}),
                             (3.0, {'case': 'VTI', 'prof': 'rnd'})):
                    cs.append({'pattern': pattern, 'shape': sh, 'w': w,
                               'freq': f, 'model': m})
    cm = []
    seqs = [(p,) for p in range(7)] + [(0, 0), (4, 5, 6), (1, 2, 3),
                                       (6, 0), (3, 6, 0)]
    for sh in ((8, 4, 12), (4, 8, 8), (12, 8, 4)) + (() if q else (
            (8, 8, 8), (6, 4, 10), (16, 4, 8))):
        for case_ in ('isotropic', 'VTI', 'HTI', 'triaxial'):
            for mu, ep in ((False, False), (True, False), (False, True),
                           (True, True)):
                for f in (3.0, -5.0):
                    if q and (mu != ep) and f < 0:
                        continue
                    for seq in seqs:
                        cm.append({'shape': sh, 'w': 'rnd', 'freq': f,
                                   'patterns': list(seq),
                                   'model': {'case': case_, 'prof': 'rnd',
                                             'mu_r': mu, 'eps_r': ep}})
    if ctx.wants('coarse-model'):
        ctx.explore('coarse-model', FN_MODEL, cm, engine='E1',
                    rule='shapes x 4 anisotropy cases x mu_r x epsilon_r x '
                         'frequency/Laplace x 12 pattern sequences (up to 3 '
                         'levels): every coarse eta_x/y/z, zeta = sum of the '
                         'children of the checker-side fine-level definition',
                    time_cap=ctx.budget or (600 if q else 3000))
    if not ctx.wants('transfer'):
        return
    # the same maps far away from the origin / with tiny and huge cells: the
    # operators depend on node DIFFERENCES only (translation invariance)
    for pattern in range(7):
        shs = shapes_for(pattern, True)
        for sh in (shs[0], shs[len(shs)//2], shs[-1]):
            for origin, unit in (((512000., 6704000., -2000.), 1.0),
                                 ((-3.3e6, 1.2e5, 7.7e4), 0.05),
                                 ((0.0, 0.0, 0.0), 1e-7),
                                 ((-1e9, 2e9, 3e9), 1e4)):
                cs.append({'pattern': pattern, 'shape': sh, 'w': 'rnd',
                           'freq': 3.0, 'origin': origin, 'unit': unit,
                           'model': {'case': 'VTI', 'prof': 'rnd'}})
    ctx.explore('transfer', FN, cs, engine='E1',
                rule='7 patterns x all admissible small shapes x width '
                     'profiles x (real triaxial+mu_r | complex VTI); full '
                     'fine basis through restriction(), full coarse basis '
                     'through prolongation()',
                time_cap=ctx.budget or (600 if q else 3000))
