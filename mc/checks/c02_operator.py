"""C02 - matrix-free operator == finite-integration discretisation.

Engine E1, full product of (shape x width profile x anisotropy case x mu_r x
eps_r x Laplace parameter).  For every configuration the real, compiled
``core.amat_x`` is applied to the full edge basis, giving the dense
implementation matrix; it is compared entry by entry with the reference FIT
assembly (mc.refmodel.fit), on interior rows and columns.
"""
import itertools

import numpy as np

from .. import zoo, impl
from ..refmodel import fit

FN = 'mc.checks.c02_operator:case'
FREQS = (10.0, -50.0)


def shapes_quick():
    s = list(itertools.product((2, 3, 4), repeat=3))
    s += [(5, 2, 3), (2, 5, 4), (3, 4, 5), (5, 5, 5)]
    return s


def shapes_thorough():
    s = list(itertools.product((2, 3, 4, 5), repeat=3))
    s += [(6, 2, 3), (2, 7, 3), (3, 2, 6), (6, 6, 6), (8, 5, 2)]
    return s


def cases(tier):
    shapes = shapes_quick() if tier == 'quick' else shapes_thorough()
    profs = ('uni', 'geo', 'alt', 'rnd')
    out = []
    for sh in shapes:
        for w in profs:
            for case_ in zoo.CASES:
                for mu in (False, True):
                    for eps in (False, True):
                        for f in FREQS:
                            out.append({
                                'shape': sh, 'w': w, 'freq': f,
                                'model': {'case': case_, 'prof': 'rnd',
                                          'mu_r': mu, 'eps_r': eps},
                                'py': max(sh) <= 3 and w == 'rnd'
                                and case_ == 'triaxial',
                            })
            # weakly magnetic media: mu_r within 1e-5 of one (but not one)
            for f in FREQS:
                out.append({'shape': sh, 'w': w, 'freq': f,
                            'model': {'case': 'VTI', 'prof': 'rnd',
                                      'mu_r': 'near1', 'eps_r': False},
                            'py': False})
    return out


def case(c):
    import emg3d
    grid = zoo.mesh({'shape': c['shape'], 'w': c['w']})
    model = zoo.model(grid, c['model'])
    freq = c['freq']
    vm, sfield = impl.vmodel_and_sfield(model, freq)
    dtype = sfield.field.dtype
    sval = zoo.sval_of(freq)
    n = tuple(grid.shape_cells)
    viol = []
    compared = 0

    Kref, Mref = fit.assemble_for(model, sval, parts=True)
    Aref = (Kref + Mref).toarray()
    im = fit.interior_mask(n)
    idx = np.flatnonzero(im)
    Aimp = impl.amat_dense(grid, vm, dtype)
    Ai = Aimp[np.ix_(idx, idx)]
    Ar = Aref[np.ix_(idx, idx)]
    scale = np.abs(Ar).max()
    if np.dtype(dtype).kind != 'c' and np.iscomplexobj(Ar):
        Ar = Ar.real
    err = np.abs(Ai - Ar).max()/scale
    compared += idx.size
    if not err <= 1e-11:
        i, j = np.unravel_index(np.argmax(np.abs(Ai - Ar)), Ai.shape)
        viol.append({'cls': 'operator-differs-from-FIT',
                     'what': f'max rel. entry error {err:.2e} at interior '
                             f'(row,col)=({idx[i]},{idx[j]})',
                     'observed': Ai[i, j], 'expected': Ar[i, j]})
    # structural: same sparsity (entries that must vanish do vanish)
    zero_ref = np.abs(Ar) == 0
    spur = np.abs(Ai[zero_ref]).max() if zero_ref.any() else 0.0
    if not spur <= 1e-13*scale:
        viol.append({'cls': 'operator-spurious-coupling',
                     'what': f'entry {spur:.2e} where the FIT stencil has none'
                     })
    # complex symmetry of the interior block
    asym = np.abs(Ai - Ai.T).max()/scale
    if not asym <= 1e-13:
        viol.append({'cls': 'operator-not-symmetric',
                     'what': f'|A - A^T| = {asym:.2e} (relative)'})
    # curl-curl part annihilates discrete gradients of interior nodes
    Kimp = impl.amat_dense(grid, vm, dtype, zero_eta=True)
    G = fit.gradient_matrix(grid.h).toarray()[:, fit.interior_nodes(n)]
    nn = G.shape[1]
    if nn:
        kg = np.abs(Kimp[idx] @ G).max()/np.abs(Kimp).max()
        compared += nn
        if not kg <= 1e-12:
            viol.append({'cls': 'curlcurl-does-not-annihilate-gradients',
                         'what': f'|K G| = {kg:.2e} (relative)'})
    kerr = np.abs(Kimp[np.ix_(idx, idx)] -
                  Kref.toarray()[np.ix_(idx, idx)]).max()/scale
    if not kerr <= 1e-11:
        viol.append({'cls': 'curlcurl-differs-from-FIT',
                     'what': f'eta=0: max rel. entry error {kerr:.2e}'})
    # thin wrapper: solver.residual == s - A e
    e = emg3d.Field(grid, zoo.random_field(grid, 'e', dtype), frequency=freq)
    s = emg3d.Field(grid, zoo.random_field(grid, 's', dtype), frequency=freq)
    r = emg3d.solver.residual(vm, s, e)
    rref = s.field - Aref @ e.field
    if np.dtype(dtype).kind != 'c':
        rref = rref.real
    rerr = np.abs((r.field - rref)[idx]).max()/np.abs(rref[idx]).max()
    nrm = emg3d.solver.residual(vm, s, e, norm=True)
    compared += 1
    if not rerr <= 1e-11:
        viol.append({'cls': 'residual-wrapper-differs',
                     'what': f'solver.residual vs s - A_ref e: {rerr:.2e}'})
    if not abs(nrm - np.linalg.norm(r.field)) <= 1e-12*abs(nrm):
        viol.append({'cls': 'residual-norm-differs',
                     'what': 'residual(norm=True) != ||residual()||'})
    # jit kernel == python source (small shapes only; py_func is slow)
    if c.get('py'):
        Apy = impl.amat_dense(grid, vm, dtype, cols=idx, py_func=True)
        perr = np.abs(Apy[idx] - Ai).max()/scale
        compared += idx.size
        if not perr <= 1e-12:
            viol.append({'cls': 'jit-differs-from-python-source',
                         'what': f'py_func vs compiled: {perr:.2e}'})
    return {'viol': viol, 'compared': compared, 'transitions': Aimp.shape[1],
            'nontrivial': idx.size > 0,
            'outcome': (idx.size, round(float(np.log10(err + 1e-300))))}


# ------------------------------- sequences of VolumeModels on shared objects
FN_SEQ = 'mc.checks.c02_operator:case_sequence'


def case_sequence(c):
    """VolumeModels are built one after the other from the SAME model and
    grid objects (next frequency, next solve) and stay alive: the operator of
    EVERY one of them - checked after all were built - equals the reference
    for its own frequency.  Nothing may leak through the shared grid / model
    or through class-level state."""
    import emg3d
    gspec = {'shape': c['shape'], 'w': 'rnd'}
    tm = zoo.mesh(gspec)
    if c['gridclass'] == 'BaseMesh':
        grid = emg3d.meshes.BaseMesh(h=[np.array(x) for x in tm.h],
                                     origin=np.array(tm.origin))
    else:
        grid = tm
    model = zoo.model(grid, c['model'])
    alive = []
    for freq in c['freqs']:
        sfield = emg3d.Field(grid, frequency=freq)
        alive.append((freq, emg3d.models.VolumeModel(model, sfield),
                      sfield.field.dtype))
    n = tuple(grid.shape_cells)
    fi = np.flatnonzero(fit.interior_mask(n))
    viol = []
    cols = fi[::max(1, len(fi)//6)][:6]
    for k, (freq, vm, dtype) in enumerate(alive):
        A = fit.assemble_for(model, zoo.sval_of(freq))
        if np.dtype(dtype).kind != 'c':
            A = A.real
        Aref = A.toarray()[np.ix_(fi, cols)]
        Aimp = impl.amat_dense(tm, vm, dtype, cols=cols)[fi]
        err = np.abs(Aimp - Aref).max()/np.abs(Aref).max()
        if not err <= 1e-11:
            viol.append({
                'cls': 'operator-depends-on-earlier-volume-models',
                'what': f'VolumeModel #{k} of the sequence {c["freqs"]} on '
                        f'one {c["gridclass"]} / model ({c["model"]}), '
                        f'checked after all were built: rel. error '
                        f'{err:.2e}'})
            break
    return {'viol': viol, 'compared': len(alive),
            'transitions': len(alive), 'nontrivial': len(alive) > 1,
            'outcome': (c['gridclass'], len(alive), bool(viol))}


def sequence_cases(tier):
    out = []
    fr = (0.77, 2.5, -3.1)
    depth = 3 if tier == 'quick' else 4
    for gc in ('TensorMesh', 'BaseMesh'):
        for m in ({'case': 'triaxial', 'prof': 'rnd', 'mu_r': True},
                  {'case': 'isotropic', 'prof': 'rnd', 'mu_r': True,
                   'eps_r': True},
                  {'case': 'HTI', 'prof': 'rnd'}):
            for d in range(2, depth + 1):
                for seq in itertools.product(fr, repeat=d):
                    out.append({'shape': (3, 2, 4), 'gridclass': gc,
                                'model': m, 'freqs': list(seq)})
    return out


# ---------------------------------------------------- how a field is handed over
FN_FA = 'mc.checks.c02_operator:case_assembly'
FA_REPS = ('F', 'C', 'view', 'inplace')


def case_assembly(c):
    """The operator acts on the field the caller specified: a field assembled
    through the component setters (fx, fy, fz) from arrays in any memory
    layout is the field whose entry (i, j, k) is the array's entry
    (i, j, k) - compared with Field(grid, data=vector) and with the
    residual of the FIT reference."""
    import emg3d
    shape = tuple(c['shape'])
    grid = zoo.mesh({'shape': shape, 'w': 'mix'})
    r = zoo.rng('c02', 'assembly', shape, c['dtype'])
    comps = []
    for sh in (grid.shape_edges_x, grid.shape_edges_y, grid.shape_edges_z):
        a = r.standard_normal(sh)
        if c['dtype'] == 'complex':
            a = a + 1j*r.standard_normal(sh)
        comps.append(a)
    vec = np.r_[tuple(a.ravel('F') for a in comps)]
    ref = emg3d.Field(grid, data=vec.astype(complex if c['dtype'] ==
                                            'complex' else float),
                      frequency=c['freq'])

    def rep(a):
        k = c['rep']
        if k == 'F':
            return np.asfortranarray(a)
        if k == 'C':
            return np.ascontiguousarray(a)
        if k == 'view':
            big = np.zeros(tuple(2*n for n in a.shape), dtype=a.dtype)
            big[::2, ::2, ::2] = a
            return big[::2, ::2, ::2]
        if k == 'list':
            return a.tolist()
        return a
    f = emg3d.Field(grid, frequency=c['freq'],
                    dtype=complex if c['dtype'] == 'complex' else float)
    if c['rep'] == 'inplace':
        f.fx[...] = comps[0]
        f.fy[...] = comps[1]
        f.fz[...] = comps[2]
    else:
        f.fx, f.fy, f.fz = rep(comps[0]), rep(comps[1]), rep(comps[2])
    viol = []
    if not np.array_equal(f.field, ref.field):
        viol.append({'cls': 'field-from-setters-is-another-field',
                     'what': f'{c}: field assembled through fx/fy/fz differs '
                             'from Field(grid, data=...) of the same entries',
                     'observed': f.field[:6], 'expected': ref.field[:6]})
    for k, a in zip(('fx', 'fy', 'fz'), comps):
        if not np.array_equal(getattr(f, k), a):
            viol.append({'cls': 'field-from-setters-is-another-field',
                         'what': f'{c}: {k}[i, j, k] is not the assigned '
                                 'array[i, j, k]'})
    # operator on that field vs the FIT reference acting on the entries
    model = zoo.model(grid, {'case': 'VTI', 'prof': 'rnd', 'mu_r': True})
    if c['dtype'] == 'complex' or c['freq'] < 0:
        sfield = emg3d.Field(grid, frequency=c['freq'])
        if c['dtype'] != 'complex':
            sfield = emg3d.Field(grid, frequency=c['freq'], dtype=float)
        res = emg3d.solver.residual(
            emg3d.models.VolumeModel(model, sfield), sfield, f, norm=False)
        res0 = emg3d.solver.residual(
            emg3d.models.VolumeModel(model, sfield), sfield, ref, norm=False)
        if not np.array_equal(res.field, res0.field):
            viol.append({'cls': 'operator-acts-on-another-field',
                         'what': f'{c}: residual of the setter-assembled '
                                 'field differs from that of the same '
                                 'entries given as vector'})
    return {'viol': viol, 'compared': 5, 'transitions': 3,
            'nontrivial': c['rep'] != 'F',
            'outcome': (c['rep'], c['dtype'], bool(viol))}


def assembly_cases(tier):
    shapes = [(2, 3, 4), (3, 3, 3), (4, 2, 2)]
    if tier != 'quick':
        shapes += [(2, 2, 2), (5, 4, 3), (3, 4, 4)]
    return [{'shape': sh, 'rep': rp, 'dtype': dt, 'freq': fr}
            for sh in shapes for rp in FA_REPS
            for dt, fr in (('complex', 1.3), ('real', -2.5))]


def prepare(ctx):
    impl.warm()


def run(ctx):
    prepare(ctx)
    ctx.assume(
        "continuous inputs (widths, conductivities, mu_r, eps_r) are drawn "
        "from the alphabets of DESIGN.md 1.3 (uni/geo/alt/seeded-random)",
        "grid shapes bounded: every per-direction cell count in 2..5 (plus a "
        "few larger), which covers all distinct boundary/interior stencil "
        "configurations of the 2-cell-wide stencil",
        "tolerance 1e-11 relative to the largest operator entry")
    if ctx.wants('sequences'):
        ctx.explore('volume-model-sequences', FN_SEQ,
                    sequence_cases(ctx.tier), engine='E2',
                    rule='all frequency sequences of length 2..3 (thorough '
                         '4) over {f1, f2, Laplace} of VolumeModels built '
                         'from ONE model and grid object (TensorMesh and '
                         'plain BaseMesh) x 3 models, all kept alive; every '
                         'operator checked after all were built',
                    time_cap=ctx.budget or (300 if ctx.quick else 900))
    if ctx.wants('field-assembly'):
        ctx.explore('field-assembly', FN_FA, assembly_cases(ctx.tier),
                    engine='E1',
                    rule='shapes x {complex f>0, real Laplace} x component '
                         'arrays handed to the setters fx/fy/fz as F-ordered, '
                         'C-ordered, strided view, or written '
                         'in place: same field and same residual as '
                         'Field(grid, data=vector)',
                    time_cap=ctx.budget or 300)
    if not ctx.wants('operator'):
        return
    cs = cases(ctx.tier)
    ctx.explore('operator', FN, cs, engine='E1',
                rule='full product shape x widths x case x mu_r x eps_r x s; '
                     'per case the full edge basis through compiled amat_x; '
                     'non-trivial = grid has interior edges',
                time_cap=ctx.budget or (600 if ctx.quick else 3000))
