"""C11 - survey results do not depend on worker count, scheduling, file mode.

Engine E3: stateless DFS over all completion orders of the tasks of one
process_map call (virtual process pool, mc.refmodel.executor), for every
max_workers, run kind (forward / back-propagation / jvec), execution mode
(in-memory / file_dir) and backend (tqdm / plain).  Every schedule is a
complete run of the real Simulation code; oracle: bit-identity with the
sequential run.  Conformance: the same survey on real ProcessPoolExecutors
with completion orders forced by per-task delays (fresh subprocesses).
"""
import functools
import itertools
import json
import os
import shutil
import subprocess
import sys
import tempfile
import warnings

import numpy as np

from .. import impl, zoo
from ..refmodel import executor, fit

TMPBASE = '/dev/shm' if os.path.isdir('/dev/shm') else None
FN = 'mc.checks.c11_schedules:case'
FN_R = 'mc.checks.c11_schedules:real_case'

KINDS = ('forward', 'gradient', 'jvec')


def problem(nsrc, nfreq, variant='same'):
    """Small survey: nsrc sources x nfreq frequencies, E and H receivers.
    variant 'laplace-mu': Laplace-domain 'frequencies' (negative values) and
    a model with heterogeneous mu_r (forward runs only)."""
    import emg3d
    h = [np.array([120., 90, 100, 130])*s for s in (1.0, 1.1, 0.9)]
    grid = emg3d.TensorMesh(h, origin=(-220., -230., -390.))
    r = zoo.rng('c11', 'model')
    mkw = {}
    if variant == 'laplace-mu':
        mkw['mu_r'] = r.uniform(0.6, 2.5, grid.shape_cells)
    model = emg3d.Model(grid, 10**r.uniform(-1, 0.5, grid.shape_cells),
                        mapping='Conductivity', **mkw)
    srcs = [emg3d.TxElectricDipole((-60. + 35*i, 20. - 30*i, -200. + 10*i,
                                    30.*i, 10.*i)) for i in range(nsrc)]
    recs = [emg3d.RxElectricPoint((60., -40., -150., 20., 5.)),
            emg3d.RxMagneticPoint((40., 50., -180., -40., 10.)),
            emg3d.RxElectricPoint((-20., 60., -120., 90., 0.))]
    freqs = [1.0, 2.5, 0.4][:nfreq]
    if variant == 'laplace-mu':
        freqs = [-f for f in freqs]
    survey = emg3d.Survey(sources=emg3d.surveys.txrx_lists_to_dict(srcs),
                          receivers=emg3d.surveys.txrx_lists_to_dict(recs),
                          frequencies=freqs, noise_floor=1e-15,
                          relative_error=0.05)
    obs = zoo.rng('c11', 'obs')
    survey.data['observed'] = (
        survey.data.observed.dims,
        (obs.standard_normal(survey.shape) +
         1j*obs.standard_normal(survey.shape))*1e-9)
    return survey, model


def refined(grid, fx, fy, fz):
    """Grid with every cell split in fx/fy/fz equal parts (same domain)."""
    import emg3d
    h = [np.repeat(grid.h[d]/f, f) for d, f in enumerate((fx, fy, fz))]
    return emg3d.TensorMesh(h, origin=grid.origin)


def run_once(nsrc, nfreq, kind, max_workers, file_dir=None, tqdm=True,
             prefix=None, repeat=True, variant='same', hop=None):
    """One complete run of the real Simulation code.  Returns observations
    (and the scheduler if a virtual pool was used)."""
    import emg3d
    survey, model = problem(nsrc, nfreq, variant)
    obs = {}
    vec = zoo.rng('c11', 'vec').standard_normal(model.shape)

    def body():
        gkw = {'gridding': 'same'}
        if variant == 'dict':
            # a different computational grid per source-frequency pair, with
            # sizes in the order medium, small, large, ... (so that 'largest
            # first' orderings are neither the identity nor self-inverse)
            fac = [(2, 1, 1), (1, 1, 1), (1, 2, 2), (2, 2, 1), (1, 1, 2),
                   (2, 2, 2)]
            grids, i = {}, 0
            for sk in survey.sources:
                grids[sk] = {}
                for fk in survey.frequencies:
                    grids[sk][fk] = refined(model.grid, *fac[i % len(fac)])
                    i += 1
            gkw = {'gridding': 'dict', 'gridding_opts': grids}
        sim = emg3d.Simulation(
            survey, model, max_workers=max_workers,
            receiver_interpolation='linear', file_dir=file_dir,
            tqdm_opts=False, verb=-1,
            # different tolerances for forward and adjoint solves: the
            # shared solver options are switched between the run kinds
            solver_opts={'tol': 1e-6, 'tol_gradient': 1e-4}, **gkw)
        with warnings.catch_warnings():
            warnings.simplefilter('ignore')
            sim.compute()
            if hop:
                # the working directory changes while the simulation lives
                # (file_dir may have been given as a relative path)
                os.chdir(hop)
            obs['efields'] = [np.array(sim.get_efield(s, f).field)
                              for s, f in sim._srcfreq]
            obs['synthetic'] = np.array(sim.data.synthetic.data)
            if variant == 'laplace-mu':
                obs['hfields'] = [np.array(sim.get_hfield(s, f).field)
                                  for s, f in sim._srcfreq]
                obs['hfields2'] = [np.array(sim.get_hfield(s, f).field)
                                   for s, f in sim._srcfreq]
            if kind in ('gradient', 'jvec'):
                obs['misfit'] = float(sim.misfit)
            if kind == 'gradient':
                obs['gradient'] = np.array(sim.gradient)
            if kind == 'jvec':
                obs['jvec'] = np.array(sim.jvec(vec))
            if repeat:
                sim.compute()
                obs['efields2'] = [np.array(sim.get_efield(s, f).field)
                                   for s, f in sim._srcfreq]
                obs['synthetic2'] = np.array(sim.data.synthetic.data)
                if kind == 'gradient':
                    obs['gradient2'] = np.array(sim.gradient)
                if kind == 'jvec':
                    obs['jvec2'] = np.array(sim.jvec(vec))
                # ... and once more from scratch on the same object (after
                # whatever the run kind left behind): clean, compute
                sim.clean('computed')
                sim.compute()
                obs['efields3'] = [np.array(sim.get_efield(s, f).field)
                                   for s, f in sim._srcfreq]
                obs['synthetic3'] = np.array(sim.data.synthetic.data)
                if kind == 'gradient':
                    obs['gradient3'] = np.array(sim.gradient)
        return sim

    if prefix is None:
        body()
        return obs, None
    with executor.virtual(prefix, tqdm_backend=tqdm) as sched:
        body()
    return obs, sched


@functools.lru_cache(maxsize=None)
def reference(nsrc, nfreq, kind, variant='same'):
    """Sequential reference: max_workers=1, in memory, real code."""
    obs, _ = run_once(nsrc, nfreq, kind, 1, None, True, None,
                      variant=variant)
    return obs


def differences(obs, ref):
    """Names of observations that are not bit-identical to the reference."""
    bad = []
    for k, v in obs.items():
        r = ref[k[:-1]] if k[-1] in '23' else ref[k]
        if isinstance(v, list):
            for i, (a, b) in enumerate(zip(v, r)):
                if not np.array_equal(a, b):
                    bad.append(f'{k}[{i}]')
        elif isinstance(v, float):
            if v != r:
                bad.append(k)
        elif not np.array_equal(v, r, equal_nan=True):
            bad.append(k)
    return bad


def slot_check(nsrc, nfreq):
    """Every slot of the sequential reference holds the field of its own
    source and frequency (independent residual)."""
    import emg3d
    survey, model = problem(nsrc, nfreq)
    ref = reference(nsrc, nfreq, 'forward')
    bad = []
    k = 0
    for sk, src in survey.sources.items():
        for fk, f in survey.frequencies.items():
            sf = emg3d.get_source_field(model.grid, src, f)
            A = fit.assemble_for(model, zoo.sval_of(f))
            idx = np.flatnonzero(fit.interior_mask(tuple(
                model.grid.shape_cells)))
            r = np.linalg.norm((np.array(sf.field) -
                                A @ ref['efields'][k])[idx])
            if not r <= 1e-6*np.linalg.norm(sf.field)*1.01:
                bad.append((sk, fk, r/np.linalg.norm(sf.field)))
            k += 1
    return bad


def case(c):
    nsrc, nfreq, kind, k = c['nsrc'], c['nfreq'], c['kind'], c['k']
    target = {'forward': 0, 'gradient': 1, 'jvec': 1}[kind]
    variant = c.get('variant', 'same')
    ref = reference(nsrc, nfreq, kind, variant)
    viol = []
    rb = differences({k_: v for k_, v in ref.items() if k_[-1] in '23'},
                     ref)
    if rb:
        viol.append({'cls': 'repeating-the-computation-changes-results',
                     'what': f'sequential run, kind={kind}: {rb[:6]}'})
    tmp = tempfile.mkdtemp(prefix='c11_', dir=TMPBASE) if c['file'] else None
    nsched = trans = 0
    orders = set()

    # the file directory carries dots in its path (a legal path)
    fdir = os.path.join(tmp, 'run.v1.d') if tmp else None

    # with the plain backend the file directory is given as a RELATIVE path
    # and the working directory changes after the first computation
    rel = bool(tmp) and not c['tqdm']
    cwd0 = os.getcwd()

    def run(prefix):
        if tmp:
            shutil.rmtree(fdir, ignore_errors=True)
        fd, hop = fdir, None
        if rel:
            os.chdir(tmp)
            fd = 'run.v1.d'
            hop = os.path.join(tmp, 'elsewhere')
            os.makedirs(hop, exist_ok=True)
        try:
            obs, sched = run_once(nsrc, nfreq, kind, k, fd, c['tqdm'],
                                  prefix, repeat=not c.get('full'),
                                  variant=variant, hop=hop)
        finally:
            os.chdir(cwd0)
        return sched, obs
    try:
        if c.get('full'):
            it = executor.explore(run)
        else:
            # vary the target call completely, default schedule elsewhere
            it = explore_call(run, target)
        for choices, sched, obs in it:
            nsched += 1
            trans += len(sched.points)
            orders.add(tuple(tuple(o) for o in sched.orders))
            bad = differences(obs, ref)
            if k > 1 and sched.calls < target + 1:
                viol.append({'cls': 'no-pool-used',
                             'what': f'{sched.calls} process pools created'})
            if bad:
                viol.append({
                    'cls': 'result-depends-on-schedule',
                    'what': f'kind={kind} k={k} file={c["file"]} '
                            f'tqdm={c["tqdm"]}: completion orders '
                            f'{sched.orders}: not bit-identical to the '
                            f'sequential run: {bad[:6]}',
                    'observed': {'choices': choices,
                                 'orders': sched.orders}})
                if len(viol) > 3:
                    break
    finally:
        if tmp:
            shutil.rmtree(tmp, ignore_errors=True)
    return {'viol': viol, 'transitions': trans, 'compared': nsched,
            'nontrivial': len(orders) > 1, 'outcome': len(orders),
            'count': {'schedules': nsched, 'distinct_orders': len(orders)}}


def explore_call(run, target):
    """All schedules that differ from the default only within process_map
    call number `target` (all completion orders of that call)."""
    stack = [[]]
    while stack:
        prefix = stack.pop()
        sched, result = run(prefix)
        choices = [c for _, c, _ in sched.points]
        if choices[:len(prefix)] != list(prefix):
            raise RuntimeError('replay divergence')
        yield choices, sched, result
        for i in range(len(sched.points) - 1, len(prefix) - 1, -1):
            nen, _, call = sched.points[i]
            if call != target:
                continue
            for alt in range(nen - 1, 0, -1):
                stack.append(choices[:i] + [alt])


# ---------------------------------------------------------------- real pool

def real_case(c):
    """Run a batch of forced completion orders on real process pools in a
    fresh interpreter; compare with the sequential run made there."""
    env = dict(os.environ)
    root = os.path.dirname(os.path.dirname(os.path.dirname(
        os.path.abspath(__file__))))
    p = subprocess.run(
        [sys.executable, '-m', 'mc.realpool', json.dumps(c)],
        cwd=root, env=env, capture_output=True, text=True, timeout=900)
    if p.returncode != 0:
        return {'viol': [{'cls': 'realpool-harness-error',
                          'what': p.stderr[-800:]}]}
    out = json.loads(p.stdout.strip().split('\n')[-1])
    viol = []
    for b in out['bad']:
        viol.append({'cls': 'real-pool-result-differs',
                     'what': f"k={c['k']} file={c['file']} kind={c['kind']} "
                             f"forced order {b['order']}: {b['names'][:6]}"})
    return {'viol': viol, 'compared': out['runs'], 'transitions': out['runs'],
            'nontrivial': True,
            'outcome': (c['k'], c['file'], out['observed_orders']),
            'count': {'real_pool_runs': out['runs'],
                      'orders_as_forced': out['as_forced']}}


def prepare(ctx):
    impl.warm()


def run(ctx):
    prepare(ctx)
    q = ctx.quick
    ctx.assume(
        "virtual pool = model of concurrent.futures.ProcessPoolExecutor: k "
        "workers, tasks start in submission order, any running task may "
        "complete next, arguments/results pickled; tasks run in one "
        "interpreter (module state leaks between all tasks: "
        "over-approximation)",
        "one process_map call is varied over ALL its completion orders while "
        "the others follow the default schedule; the full product over all "
        "calls is enumerated for max_workers=2",
        "real pools: completion orders forced by per-task delays; a delay "
        "that fails to force the order weakens detection only")
    nsrc, nfreq = (2, 2) if q else (3, 2)
    bad = slot_check(nsrc, nfreq)
    ctx.account('sequential-reference-slots', engine='E3', states=nsrc*nfreq,
                transitions=nsrc*nfreq, compared=nsrc*nfreq,
                nontrivial=nsrc*nfreq,
                rule='every slot of the sequential reference satisfies its '
                     'own source/frequency system (independent residual)')
    for b in bad:
        ctx.violation('sequential-reference-slots', FN, {'slot': b[:2]},
                      {'cls': 'slot-holds-wrong-field',
                       'what': f'slot {b[0]},{b[1]}: residual {b[2]:.2e}'})
    cs = []
    for kind in KINDS:
        if q:
            plan = [(False, True, (1, 2, 3, 4, 16)), (False, False, (2, 4)),
                    (True, True, (2, 4)), (True, False, (4,))]
        else:
            plan = [(f, t, tuple(range(1, 17))) for f in (False, True)
                    for t in (True, False)]
        for file_, tq, ks in plan:
            for k in ks:
                cs.append({'nsrc': nsrc, 'nfreq': nfreq, 'kind': kind,
                           'k': k, 'file': file_, 'tqdm': tq})
    # per-pair computational grids of different sizes (gridding='dict')
    for kind in (('forward', 'gradient') if q else KINDS):
        for file_ in (False, True):
            for k in ((2, 3) if q else (2, 3, 4, 16)):
                cs.append({'nsrc': 1, 'nfreq': 3, 'kind': kind, 'k': k,
                           'file': file_, 'tqdm': True, 'variant': 'dict'})
    # Laplace domain + heterogeneous mu_r + magnetic receivers (forward)
    for file_ in (False, True):
        for k in ((1, 2) if q else (1, 2, 4)):
            cs.append({'nsrc': 2, 'nfreq': 2, 'kind': 'forward', 'k': k,
                       'file': file_, 'tqdm': not file_,
                       'variant': 'laplace-mu'})
    # most expensive first for load balance
    cs.sort(key=lambda c: -min(c['k'], nsrc*nfreq))
    ctx.explore('all-orders-of-one-call', FN, cs, engine='E3',
                rule='per (run kind, max_workers, file mode, backend): DFS '
                     'over all completion orders of the varied process_map '
                     'call; non-trivial = more than one distinct order',
                time_cap=ctx.budget or (600 if q else 4800), chunksize=1)
    cs = [{'nsrc': 2, 'nfreq': 2, 'kind': kind, 'k': 2, 'file': f,
           'tqdm': True, 'full': True}
          for kind in (('gradient',) if q else ('gradient', 'jvec'))
          for f in ((False,) if q else (False, True))]
    ctx.explore('full-product-k2', FN, cs, engine='E3',
                rule='max_workers=2: all schedules of ALL process_map calls '
                     'of the run (8 x 8 (x 8))',
                time_cap=ctx.budget or (480 if q else 2400), chunksize=1)
    perms = list(itertools.permutations(range(4)))
    if q:   # 8 of the 24 orders: identity, reversal, rotations, swaps
        perms = [perms[i] for i in (0, 23, 9, 16, 7, 14, 3, 20)]
    cs = []
    for k in ((4,) if q else (2, 3, 4, 8, 16)):
        for file_ in (False, True):
            for kind in (('gradient',) if q else ('gradient', 'jvec')):
                step = 4 if q else 6
                for part in range(0, len(perms), step):
                    cs.append({'k': k, 'file': file_, 'kind': kind,
                               'orders': perms[part:part+step]})
    ctx.explore('real-pool-conformance', FN_R, cs, engine='E3',
                rule='real ProcessPoolExecutor, 4 tasks, completion orders '
                     '(8 representative in quick, all 24 in thorough) forced '
                     'by delays, fresh subprocess per batch',
                time_cap=ctx.budget or (600 if q else 3000), chunksize=1)
