"""C17 - save / load round-trips every emg3d object in h5 / npz / json;
convert between formats preserves content.

E1 ``roundtrip``: object zoo (every registered class x variants, nested
dictionaries) x 3 formats: ``emg3d.save`` -> ``emg3d.load`` (and the
``to_file`` / ``from_file`` methods where they exist).
E2 ``chains``: every chain of ``emg3d.io.convert`` steps (each to another
format) of length <= 3 (quick) / <= 4 (thorough) from every initial format;
the content is compared with the original object after every step.

Oracle: structural equality of the ``to_dict()`` trees (classes, keys, array
shape + dtype + values NaN-aware, scalar kind and value), ``obj == loaded``
where ``__eq__`` exists, behavioural equality for Simulations (misfit and
gradient of the reloaded simulation equal the original's).
"""
import contextlib
import io
import os
import tempfile
import warnings

import numpy as np

from .. import zoo

FN_E1 = 'mc.checks.c17_io:roundtrip'
FN_E2 = 'mc.checks.c17_io:chain'
FORMATS = ('h5', 'npz', 'json')

CLS_JSON = 'simulation-with-misfit-json-typeerror'
CLS_TYPE = 'simulation-misfit-type-after-reload'
CLS_RAISE = 'simulation-misfit-raises-after-reload'


# ------------------------------------------------------------------ trees
def known_classes():
    import emg3d
    return tuple(emg3d.utils._KNOWN_CLASSES.values())


def skind(x):
    """Kind of a scalar: Python and NumPy scalars of a kind are the same,
    a 0-d array counts as its scalar."""
    if x is None:
        return 'none'
    if isinstance(x, (bool, np.bool_)):
        return 'bool'
    if isinstance(x, (int, np.integer)):
        return 'int'
    if isinstance(x, (float, np.floating)):
        return 'float'
    if isinstance(x, (complex, np.complexfloating)):
        return 'complex'
    if isinstance(x, (str, np.str_)):
        return 'str'
    return None


def unwrap(x):
    """DataArray -> its array; 0-d array -> NumPy scalar."""
    if hasattr(x, 'dims') and hasattr(x, 'data') and hasattr(x, 'coords'):
        x = np.asarray(x.data)
    if isinstance(x, np.ndarray) and x.ndim == 0:
        x = x[()]
    return x


def same_values(a, b):
    a, b = np.asarray(a), np.asarray(b)
    if a.dtype.kind in 'fc':
        na, nb = np.isnan(a), np.isnan(b)
        if not np.array_equal(na, nb):
            return False
        return bool(np.array_equal(a[~na], b[~nb]))
    return bool(np.array_equal(a, b))


def view(x, what=None):
    """Public attributes of an instance, independent of its to_dict()."""
    n = type(x).__name__
    if n == 'TensorMesh':
        return {'h0': x.h[0], 'h1': x.h[1], 'h2': x.h[2],
                'origin': x.origin, 'n_cells': int(x.n_cells),
                'shape_cells': [int(i) for i in x.shape_cells]}
    if n == 'Model':
        return {'grid': x.grid, 'property_x': x.property_x,
                'property_y': x.property_y, 'property_z': x.property_z,
                'mu_r': x.mu_r, 'epsilon_r': x.epsilon_r,
                'map': x.map.name, 'case': x.case}
    if n == 'Field':
        return {'grid': x.grid, 'field': np.asarray(x.field),
                'frequency': x._frequency, 'electric': x.electric,
                'sval': x.sval}
    if n[:2] in ('Tx', 'Rx'):
        out = {'points': x.points, 'coordinates': x.coordinates,
               'center': x.center, 'xtype': x.xtype,
               'length': float(x.length)}
        if n[:2] == 'Tx':
            out['strength'] = x.strength
        else:
            out['relative'] = x.relative
            out['data_type'] = x.data_type
        return out
    if n == 'Survey':
        skip = ('synthetic', 'residual', 'weights') if what == 'plain' else ()
        std = x.standard_deviation
        return {'sources': dict(x.sources), 'receivers': dict(x.receivers),
                'frequencies': dict(x.frequencies),
                'source_order': '|'.join(x.sources),
                'receiver_order': '|'.join(x.receivers),
                'frequency_order': '|'.join(x.frequencies),
                'data': {k: np.asarray(v.data) for k, v in x.data.items()
                         if k not in skip},
                'noise_floor': x.noise_floor,
                'relative_error': x.relative_error,
                'standard_deviation': None if std is None
                else np.asarray(std.data),
                'name': x.name, 'date': x.date, 'info': x.info,
                'shape': [int(i) for i in x.shape]}
    if n == 'Simulation':
        so = {k: v for k, v in x.solver_opts.items()}
        return {'survey': view(x.survey, what), 'model': x.model,
                'gridding': x.gridding, 'max_workers': x.max_workers,
                'name': x.name, 'info': x.info, 'verb': x.verb,
                'receiver_interpolation': x.receiver_interpolation,
                'tol_forward': x.tol_forward, 'tol_gradient': x.tol_gradient,
                'file_dir': x.file_dir, 'layered': x.layered,
                'solver_opts': so, 'input_sc2': x._input_sc2,
                'computed': bool(x._computed) if what != 'plain' else None}
    return {}


class Diff:
    def __init__(self):
        self.items = []        # (cls, path, what)
        self.n = 0

    def add(self, cls, path, what):
        self.items.append((cls, path, what))


def compare(a, b, path, d):
    """Structural comparison of the original tree a with the loaded tree b."""
    kc = known_classes()
    if isinstance(a, kc) or isinstance(b, kc):
        if type(a).__name__ != type(b).__name__:
            if isinstance(b, dict) and b.get('__class__') == type(a).__name__:
                d.add('loaded-as-dict', path, f'{type(a).__name__} comes '
                      'back as its dict (not de-serialized)')
            else:
                d.add('class-differs', path,
                      f'{type(a).__name__} -> {type(b).__name__}')
            return
        compare(view(a), view(b), path + '.', d)      # attributes
        a, b = a.to_dict(), b.to_dict()
    a, b = unwrap(a), unwrap(b)
    d.n += 1
    if isinstance(a, dict):
        if not isinstance(b, dict):
            d.add('dict-lost', path, f'dict -> {type(b).__name__}')
            return
        ka, kb = {str(k) for k in a}, {str(k) for k in b}
        for k in sorted(ka - kb):
            v = a[k] if k in a else None
            if isinstance(v, dict) and not v:
                d.add('empty-dict-dropped', f'{path}/{k}',
                      'empty dict is missing after load')
            else:
                d.add('key-missing', f'{path}/{k}', 'missing after load')
        for k in sorted(kb - ka):
            d.add('key-added', f'{path}/{k}', 'not in the original')
        bs = {str(k): v for k, v in b.items()}
        for k, v in a.items():
            if str(k) in bs:
                compare(v, bs[str(k)], f'{path}/{k}', d)
        return
    if isinstance(a, np.ndarray):
        if not isinstance(b, np.ndarray):
            d.add('array-lost', path, f'ndarray -> {type(b).__name__}')
        elif a.shape != b.shape:
            d.add('zero-size-array-shape-lost' if a.size == 0 else
                  'array-shape-differs', path, f'{a.shape} -> {b.shape}')
        elif a.dtype != b.dtype:
            d.add('array-dtype-differs', path, f'{a.dtype} -> {b.dtype}')
        elif not same_values(a, b):
            d.add('array-values-differ', path, 'values differ')
        return
    if isinstance(a, (list, tuple)):
        if isinstance(b, np.ndarray):
            b = b.tolist()
        if not isinstance(b, (list, tuple)) or len(a) != len(b):
            d.add('sequence-differs', path,
                  f'{type(a).__name__} -> {type(b).__name__}')
            return
        for i, (x, y) in enumerate(zip(a, b)):
            compare(x, y, f'{path}[{i}]', d)
        return
    ka, kb = skind(a), skind(b)
    # a 0-d array / NumPy scalar of a non-default width keeps its dtype
    if isinstance(a, np.generic) and ka in ('int', 'float', 'complex') and \
            a.dtype not in (np.dtype(np.int64), np.dtype(np.float64),
                            np.dtype(np.complex128)) and ka == kb and \
            getattr(b, 'dtype', None) != a.dtype:
        d.add('zero-dim-dtype-lost', path,
              f'{a.dtype} -> {getattr(b, "dtype", type(b).__name__)}')
        return
    if ka is None:
        d.add('unsupported-leaf', path, f'{type(a).__name__}')
    elif ka != kb:
        d.add('scalar-kind-differs', path,
              f'{ka} {a!r} -> {kb or type(b).__name__} {b!r}'[:200])
    elif ka == 'none':
        pass
    elif ka in ('float', 'complex'):
        if not same_values(a, b):
            d.add('scalar-value-differs', path, f'{a!r} -> {b!r}')
    elif not a == b:
        d.add('scalar-value-differs', path, f'{a!r} -> {b!r}')


# -------------------------------------------------------------------- zoo
TXRX = {
    'TxElectricPoint': ('point',),
    'TxMagneticPoint': ('point',),
    'TxElectricDipole': ('point', 'flat', 'dipole'),
    'TxMagneticDipole': ('point', 'flat', 'dipole'),
    'TxElectricWire': ('wire',),
    'RxElectricPoint': ('point',),
    'RxMagneticPoint': ('point',),
}
COORDS = {
    'point': (120.5, -30.25, -75.0, 33.0, -12.5),
    'flat': (100.0, 180.5, -20.0, 45.25, -60.0, -95.5),
    'dipole': [[100.0, -20.0, -60.0], [180.5, 45.25, -95.5]],
    'wire': [[0.0, 0.0, -50.0], [100.0, 20.5, -50.0], [150.0, 120.0, -70.25],
             [0.0, 100.0, -60.0]],
}
COORDS2 = {
    'point': (0.0, 0.0, 0.0, 0.0, 0.0),
    'flat': (-10.0, -10.0, 5.0, 5.0, -1.0, 1.0),
    'dipole': [[-0.5, 0.0, 0.0], [0.5, 0.0, 0.0]],
    'wire': [[0.0, 0.0, 0.0], [0.0, 0.0, -100.0]],
}
STRENGTH = {'default': None, 'real': 75.5, 'complex': 3.5 - 2.25j, 'int': 2}


def make_txrx(spec):
    import emg3d
    cls = getattr(emg3d, spec['cls'])
    coo = (COORDS2 if spec.get('alt') else COORDS)[spec['fmt']]
    kw = {}
    if spec['cls'].startswith('Tx'):
        if STRENGTH[spec.get('strength', 'default')] is not None:
            kw['strength'] = STRENGTH[spec['strength']]
        if spec['fmt'] == 'point' and 'Dipole' in spec['cls'] \
                and spec.get('length'):
            kw['length'] = spec['length']
    else:
        kw['relative'] = bool(spec.get('relative'))
    return cls(coo, **kw)


def make_mesh(spec):
    return zoo.mesh({'shape': spec.get('shape', (2, 3, 4)),
                     'w': spec.get('w', 'mix')})


def make_model(spec):
    grid = make_mesh(spec)
    return zoo.model(grid, {'case': spec['case'],
                            'prof': spec.get('prof', 'rnd'),
                            'mapping': spec['mapping'],
                            'mu_r': spec.get('mu_r'),
                            'eps_r': spec.get('eps_r')})


def make_field(spec):
    import emg3d
    grid = make_mesh(spec)
    freq = spec.get('freq')
    electric = spec.get('electric', True)
    n = grid.n_edges if electric else grid.n_faces
    g = zoo.rng('c17', 'field', repr(sorted(spec.items())))
    if spec.get('data', True):
        if freq is not None and freq < 0 or spec.get('dtype') == 'float':
            data = g.standard_normal(n)
        else:
            data = g.standard_normal(n) + 1j*g.standard_normal(n)
        return emg3d.Field(grid, data, frequency=freq, electric=electric)
    return emg3d.Field(grid, frequency=freq, electric=electric,
                       dtype=spec.get('dtype') and float)


def survey_geometry(variant):
    import emg3d
    if variant == 'mixed-txrx':
        src = {
            'Tx-a': emg3d.TxElectricDipole((40., 60., -110., 20., 10.),
                                           strength=2.5 - 1.5j, length=30.),
            'Tx-b': emg3d.TxMagneticDipole(COORDS['flat'], strength=10.),
            'Tx-c': emg3d.TxElectricWire(COORDS['wire'], strength=3),
            'Tx-d': emg3d.TxMagneticPoint((10., 20., -30., 0., 90.)),
        }
        rec = {
            'Rx-a': emg3d.RxElectricPoint((150., 130., -120., 10., -5.)),
            'Rx-b': emg3d.RxMagneticPoint((30., 10., 5., 20., 10.),
                                          relative=True),
            'Rx-c': emg3d.RxElectricPoint((-20., 15., 2.5, 90., 0.),
                                          relative=True),
        }
        freq = {'lo': 0.5, 'hi': 2.0}
        return src, rec, freq
    src = [emg3d.TxElectricDipole((120. + 60*i, 110. + 30*i, -90., 20.*i,
                                   10.*i), strength=1 + i) for i in range(2)]
    rec = [emg3d.RxElectricPoint((250., 130., -120., 0, 0)),
           emg3d.RxMagneticPoint((40., 10., 5., 30, 10), relative=True),
           emg3d.RxElectricPoint((150., 270., -170., 90, 0))]
    return src, rec, (1.0, 2.5)


def make_survey(spec):
    import emg3d
    v = spec['variant']
    src, rec, freq = survey_geometry(v)
    if v == 'no-receivers':
        return emg3d.Survey(src, None, freq, name='no receivers')
    ns, nr, nq = len(src), len(rec), len(freq)
    shape = (ns, nr, nq)
    g = zoo.rng('c17', 'survey', v)
    d = g.standard_normal(shape) + 1j*g.standard_normal(shape)
    s = np.arange(ns)[:, None, None]
    r = np.arange(nr)[None, :, None]
    q = np.arange(nq)[None, None, :]
    if v == 'empty':
        return emg3d.Survey(src, rec, freq)
    if v == 'scalar-noise':
        d[0, 1, :] = np.nan + 1j*np.nan
        d[1, 2, 0] = np.nan + 1j*np.nan
        return emg3d.Survey(src, rec, freq, data=d, noise_floor=1e-3,
                            relative_error=0.05, name='Survey A',
                            date='2026-09-23', info='scalar noise; NaN gaps')
    if v == 'array-noise':
        d[1, 0, 1] = np.nan + 1j*np.nan
        return emg3d.Survey(
            src, rec, freq, data={'observed': d, 'extra': d.conj()*2,
                                  'realvalued': d.real.copy()},
            noise_floor=0.01*(1 + r), relative_error=0.02*(1+s+2*r+0.5*q),
            info='array noise')
    if v == 'explicit-std':
        d[0, 0, 0] = np.nan + 1j*np.nan
        sv = emg3d.Survey(src, rec, freq, data=d, noise_floor=0.02*(1+q),
                          relative_error=0.03, name='std')
        sv.standard_deviation = 0.1*(1 + s + 0.5*r + 0.25*q)
        return sv
    if v == 'mixed-txrx':
        d[2, 1, :] = np.nan + 1j*np.nan
        return emg3d.Survey(src, rec, freq, data=d, relative_error=0.1*(1+s),
                            date='today')
    if v == 'noisy':
        sv = emg3d.Survey(src, rec, freq, data=d, noise_floor=0.3,
                          relative_error=0.05)
        from .c13_noise import seeded_rng
        with seeded_rng('c17', 'noisy'):
            sv.add_noise(min_amplitude=0.5, add_to='noisy')
        return sv
    raise ValueError(v)


def sim_inputs(spec):
    import emg3d
    n = spec.get('n', 4)
    hx = np.ones(n)*100.0
    grid = emg3d.TensorMesh([hx, hx*1.1, hx*0.9], origin=(0., 0., -n*90.))
    case = spec.get('case', 'isotropic')
    g = zoo.rng('c17', 'simmodel', n, case)
    kw = {'property_x': 10**g.uniform(-0.5, 0.5, grid.shape_cells)}
    if case in ('VTI', 'triaxial'):
        kw['property_z'] = 10**g.uniform(-0.5, 0.5, grid.shape_cells)
    if case in ('HTI', 'triaxial'):
        kw['property_y'] = 10**g.uniform(-0.5, 0.5, grid.shape_cells)
    model = emg3d.Model(grid, mapping=spec.get('mapping', 'Resistivity'),
                        **kw)
    c = n*50.0
    src = [emg3d.TxElectricDipole((c - 40 + 70*i, c + 10, -c + 20, 25.*i,
                                   5.*i),
                                  # (the 1-D modeller of the layered mode
                                  # takes real source strengths only)
                                  strength=1 + 0.5*i if spec.get('layered')
                                  else 1 + 0.5j*i)
           for i in range(2)]
    rec = [emg3d.RxElectricPoint((c + 60, c - 30, -c - 10, 0, 0)),
           emg3d.RxMagneticPoint((20., 15., 5., 30, 10), relative=True)]
    shape = (2, 2, 2)
    go = zoo.rng('c17', 'simdata', n)
    d = (go.standard_normal(shape) + 1j*go.standard_normal(shape))*1e-9
    d[1, 0, 1] = np.nan + 1j*np.nan
    r = np.arange(2)[None, :, None]
    survey = emg3d.Survey(src, rec, (1.0, 3.0), data=d,
                          noise_floor=1e-10*(1 + r), relative_error=0.05,
                          name='sim survey')
    return survey, model


def make_simulation(spec, tmp):
    import emg3d
    survey, model = sim_inputs(spec)
    v = spec['variant']
    kw = {}
    if v == 'file':
        fd = os.path.join(tmp, 'simfiles')
        kw['file_dir'] = fd
    gkw = {'gridding': spec.get('gridding', 'same')}
    if gkw['gridding'] in ('input', 'dict'):
        # user-given computational grids: another grid with the same number
        # of cells; 'dict': one per source and frequency
        g = model.grid
        g2 = emg3d.TensorMesh([g.h[0]*1.1, g.h[1]*0.95, g.h[2]*1.05],
                              origin=np.array(g.origin)*1.03)
        gkw['gridding_opts'] = g2 if gkw['gridding'] == 'input' else {
            s_: {f_: (g2, g)[(i + j) % 2]
                 for j, f_ in enumerate(survey.frequencies)}
            for i, s_ in enumerate(survey.sources)}
    if spec.get('layered'):
        gkw['layered'] = True
        gkw['layered_opts'] = {'method': spec['layered']}
    sim = emg3d.Simulation(
        survey, model, max_workers=1, verb=-1, **gkw,
        tqdm_opts=False, receiver_interpolation='linear',
        name='zoo sim', info=None if v == 'plain' else f'variant {v}',
        solver_opts={'maxit': 2, 'verb': 0, 'plain': True}, **kw)
    with warnings.catch_warnings():
        warnings.simplefilter('ignore')
        if v in ('computed', 'file'):
            sim.compute()
        elif v == 'observed':
            from .c13_noise import seeded_rng
            with seeded_rng('c17', 'observed'):
                sim.compute(observed=True, min_amplitude=None)
        elif v == 'misfit':
            _ = sim.misfit
        elif v == 'gradient':
            _ = sim.gradient
        elif v != 'plain':
            raise ValueError(v)
    return sim


def nested(variant, tmp):
    leaves = {
        'int': 7, 'negint': -3, 'float': 2.5, 'nan': float('nan'),
        'complex': 1.5 - 2.25j, 'str': 'some text', 'empty_str': '',
        'true': True, 'false': False, 'none': None,
        'npint': np.int64(11), 'npfloat': np.float64(0.1),
        'npcomplex': np.complex128(2 + 3j), 'npbool': np.bool_(True),
        'real_arr': np.array([[1.5, np.nan], [-2.0, 1e-300]]),
        'complex_arr': np.array([1 + 2j, np.nan - 1j, 0.5j]),
        'int_arr': np.arange(6, dtype=np.int64).reshape(2, 3) - 2,
        'int32_arr': np.array([1, -2, 3], dtype=np.int32),
        'float32_arr': np.array([0.5, 0.25], dtype=np.float32),
        'arr3d': np.arange(24.0).reshape(2, 3, 4),
        # every numeric dtype family in single and double width, 0-d to 2-d
        'complex64_arr': np.array([[1 + 2j, 0.5j], [np.nan, -3]],
                                  dtype=np.complex64),
        'complex64_1d': np.array([0.25 - 1j, 2], dtype=np.complex64),
        'complex64_0d': np.array(1.5 + 0.5j, dtype=np.complex64),
        'float32_2d': (np.arange(6, dtype=np.float32)/4).reshape(3, 2),
        'float32_0d': np.array(0.75, dtype=np.float32),
        'int16_arr': np.array([[1, -2], [300, 4]], dtype=np.int16),
        'uint8_arr': np.array([0, 7, 255], dtype=np.uint8),
        'f_order_arr': np.asfortranarray(np.arange(6.0).reshape(2, 3)),
        'inf_arr': np.array([np.inf, -np.inf, 1.0]),
        'complex_inf': np.array([complex(1.0, np.inf), complex(-np.inf, 0.0),
                                 complex(2.0, -np.inf)]),
    }
    if variant == 'flat':
        return dict(leaves)
    if variant == 'depth':
        def level(k):
            out = dict(leaves)
            if k > 1:
                out['deeper'] = level(k - 1)
                out['also'] = {'x': k, 'y': {'z': 1j*k}} if k > 2 else {'x': k}
            return out
        return level(4)
    if variant == 'zero-size-array':
        return {'a': 1.0, 'zero': np.zeros((2, 0, 3)),
                'czero': np.zeros((0,), dtype=complex)}
    if variant == 'empty-dict':
        return {'a': 1, 'empty': {}, 'sub': {'inner_empty': {}, 'b': 2.0}}
    if variant == 'objects':
        mesh = make_mesh({'shape': (2, 2, 3), 'w': 'geo'})
        return {
            'level1': {'mesh': mesh, 'level2': {
                'model': make_model({'shape': (2, 2, 3), 'case': 'VTI',
                                     'mapping': 'LgConductivity'}),
                'level3': {'src': make_txrx({'cls': 'TxElectricDipole',
                                             'fmt': 'flat',
                                             'strength': 'complex'}),
                           'level4': {'field': make_field(
                               {'shape': (2, 2, 3), 'freq': 1.0}),
                               'n': 4, 'c': 1j}}}},
            'survey': make_survey({'variant': 'array-noise'}),
            'text': 'x', 'none': None}
    raise ValueError(variant)


def build(spec, tmp):
    k = spec['kind']
    if k == 'mesh':
        return make_mesh(spec)
    if k == 'model':
        return make_model(spec)
    if k == 'field':
        return make_field(spec)
    if k == 'txrx':
        return make_txrx(spec)
    if k == 'survey':
        return make_survey(spec)
    if k == 'simulation':
        return make_simulation(spec, tmp)
    if k == 'dict':
        return nested(spec['variant'], tmp)
    raise ValueError(k)


def zoo_specs(tier):
    out = []
    out.append({'kind': 'mesh', 'shape': (2, 3, 4), 'w': 'mix'})
    out.append({'kind': 'mesh', 'shape': (1, 1, 1), 'w': 'uni'})
    out.append({'kind': 'mesh', 'shape': (5, 2, 3), 'w': 'rnd'})
    for mapping in zoo.MAPPINGS:
        for case in zoo.CASES:
            for mu, eps in ((False, False), (True, False), (False, True),
                            (True, True)):
                out.append({'kind': 'model', 'mapping': mapping,
                            'case': case, 'mu_r': mu, 'eps_r': eps,
                            'shape': (2, 3, 2)})
    for freq in (1.5, -2.0, None):
        for electric in (True, False):
            out.append({'kind': 'field', 'freq': freq, 'electric': electric,
                        'shape': (2, 3, 2)})
    out.append({'kind': 'field', 'freq': None, 'electric': True,
                'dtype': 'float', 'shape': (2, 2, 2)})
    out.append({'kind': 'field', 'freq': 2.0, 'electric': True,
                'data': False, 'shape': (2, 2, 2)})
    for cls, fmts in TXRX.items():
        for fmt in fmts:
            if cls.startswith('Tx'):
                for st in ('default', 'real', 'complex', 'int'):
                    out.append({'kind': 'txrx', 'cls': cls, 'fmt': fmt,
                                'strength': st})
                if fmt == 'point' and 'Dipole' in cls:
                    out.append({'kind': 'txrx', 'cls': cls, 'fmt': fmt,
                                'strength': 'complex', 'length': 25.5})
            else:
                for rel in (False, True):
                    out.append({'kind': 'txrx', 'cls': cls, 'fmt': fmt,
                                'relative': rel})
    if tier != 'quick':
        for mapping in zoo.MAPPINGS:
            for case in zoo.CASES:
                out.append({'kind': 'model', 'mapping': mapping,
                            'case': case, 'mu_r': case == 'VTI',
                            'eps_r': case == 'HTI', 'shape': (3, 1, 2),
                            'prof': 'lay'})
        for cls, fmts in TXRX.items():
            for fmt in fmts:
                if cls.startswith('Tx'):
                    out.append({'kind': 'txrx', 'cls': cls, 'fmt': fmt,
                                'strength': 'complex', 'alt': True})
                else:
                    out.append({'kind': 'txrx', 'cls': cls, 'fmt': fmt,
                                'relative': True, 'alt': True})
    for v in ('empty', 'scalar-noise', 'array-noise', 'explicit-std',
              'mixed-txrx', 'noisy', 'no-receivers'):
        out.append({'kind': 'survey', 'variant': v})
    for v, whats in (('plain', ('computed', 'plain')),
                     ('computed', ('computed', 'results', 'all', 'plain')),
                     ('observed', ('computed',)),
                     ('misfit', ('computed', 'results')),
                     ('gradient', ('computed', 'results')),
                     ('file', ('computed', 'results'))):
        for what in whats:
            out.append({'kind': 'simulation', 'variant': v, 'what': what,
                        'n': 4})
    for lay in ('midpoint', 'cylinder'):
        for v, what in (('plain', 'plain'), ('computed', 'computed'),
                        ('misfit', 'results'), ('gradient', 'computed')):
            out.append({'kind': 'simulation', 'variant': v, 'what': what,
                        'n': 4, 'layered': lay})
    for gr in ('input', 'dict'):
        for v, what in (('plain', 'plain'), ('computed', 'computed'),
                        ('gradient', 'results')):
            out.append({'kind': 'simulation', 'variant': v, 'what': what,
                        'n': 4, 'gridding': gr})
    out.append({'kind': 'simulation', 'variant': 'computed',
                'what': 'computed', 'n': 8, 'case': 'triaxial',
                'mapping': 'LgConductivity'})
    out.append({'kind': 'simulation', 'variant': 'gradient',
                'what': 'computed', 'n': 6, 'case': 'VTI',
                'mapping': 'Conductivity'})
    for v in ('flat', 'depth', 'objects', 'empty-dict', 'zero-size-array'):
        out.append({'kind': 'dict', 'variant': v})
    return out


# ---------------------------------------------------------------- workers
def has_misfit(obj):
    return type(obj).__name__ == 'Simulation' and \
        getattr(obj, '_misfit', None) is not None


def original_tree(obj, spec):
    """What has to come back: the object itself, for a Simulation the
    content selected by ``what``."""
    if type(obj).__name__ == 'Simulation':
        return obj.to_dict(what=spec.get('what', 'computed'))
    return obj


def loaded_tree(obj, spec):
    if type(obj).__name__ == 'Simulation':
        what = spec.get('what', 'computed')
        return obj.to_dict(what='computed' if what == 'all' else what)
    return obj


def do_save(obj, spec, fname, method):
    import emg3d
    if method and hasattr(obj, 'to_file'):
        if type(obj).__name__ == 'Simulation':
            obj.to_file(fname, what=spec.get('what', 'computed'),
                        name='obj', verb=0)
        else:
            obj.to_file(fname, name='obj', verb=0)
    elif type(obj).__name__ == 'Simulation':
        obj._what_to_file = spec.get('what', 'computed')
        try:
            emg3d.save(fname, obj=obj, verb=0)
        finally:
            if hasattr(obj, '_what_to_file'):
                del obj._what_to_file
    else:
        emg3d.save(fname, obj=obj, verb=0)


def do_load(obj, fname, method):
    import emg3d
    if method and hasattr(obj, 'from_file'):
        return type(obj).from_file(fname, name='obj', verb=0), None
    out = emg3d.load(fname, verb=0)
    meta = {k: out.get(k) for k in ('_date', '_version', '_format')}
    return out['obj'], meta


def check_content(obj, loaded, spec, where, viol, stats):
    """Tree comparison + __eq__; returns number of comparisons."""
    d = Diff()
    compare(original_tree(obj, spec), loaded_tree(loaded, spec), 'obj', d)
    if type(obj).__name__ == 'Simulation' and \
            type(loaded).__name__ == 'Simulation':
        what = spec.get('what', 'computed')
        compare(view(obj, what), view(loaded, what), 'obj.', d)
    stats['compared'] += d.n
    seen = set()
    for cls, path, what in d.items:
        if cls in seen:
            continue
        seen.add(cls)
        viol.append({'cls': f'{cls}', 'what': f'{where}: {path}: {what}',
                     'observed': what})
    if hasattr(type(obj), '__eq__') and type(obj).__eq__ is not object.__eq__ \
            and not isinstance(obj, dict):
        stats['compared'] += 1
        if not (obj == loaded):
            viol.append({'cls': 'loaded-object-not-equal',
                         'what': f'{where}: obj == loaded is False'})
    return d


def sim_behaviour(sim, loaded, spec, where, viol, stats):
    """misfit / gradient of the reloaded simulation == the original's."""
    what = spec.get('what', 'computed')
    with warnings.catch_warnings():
        warnings.simplefilter('ignore')
        m0 = sim.misfit
        stats['compared'] += 1
        try:
            m1 = loaded.misfit
        except AttributeError as e:
            # e.g. h5 -> json: the cached misfit comes back as a Python
            # float and Simulation.misfit asks for its ``.data``
            viol.append({'cls': CLS_RAISE,
                         'what': f'{where}: reloaded sim.misfit raises '
                                 f'AttributeError: {e}',
                         'observed': repr(e)})
            m1 = loaded._misfit
        if not any(v['cls'] == CLS_RAISE for v in viol[-1:]) and (
                isinstance(m1, memoryview) or not
                isinstance(m1, (float, np.floating, np.ndarray))):
            viol.append({'cls': CLS_TYPE,
                         'what': f'{where}: reloaded sim.misfit is a '
                                 f'{type(m1).__name__}, original: '
                                 f'{type(m0).__name__}',
                         'observed': type(m1).__name__,
                         'expected': type(m0).__name__})
            m1 = np.asarray(m1)
        v0, v1 = float(np.asarray(m0)), float(np.asarray(m1))
        if not (v0 == v1 or abs(v0 - v1) <= 1e-12*abs(v0)):
            viol.append({'cls': 'reloaded-simulation-misfit-differs',
                         'what': f'{where}: misfit {v1!r} vs {v0!r}',
                         'observed': v1, 'expected': v0})
        raised = any(v['cls'] == CLS_RAISE for v in viol)
        if what in ('computed', 'all') and spec['variant'] != 'file' \
                and not raised:
            g0 = sim.gradient
            g1 = loaded.gradient
            stats['compared'] += 1
            if g0.shape != g1.shape or not np.allclose(
                    g1, g0, rtol=1e-10, atol=1e-14*np.abs(g0).max()):
                viol.append({'cls': 'reloaded-simulation-gradient-differs',
                             'what': f'{where}: gradient differs',
                             'observed': g1, 'expected': g0})
        stats['behaviour'] = stats.get('behaviour', 0) + 1


def save_guard(obj, spec, fname, method, fmt, viol, where):
    """Save; an exception is a violation (D9 gets its own class)."""
    try:
        do_save(obj, spec, fname, method)
        return True
    except Exception as e:                         # noqa
        if fmt == 'json' and isinstance(e, TypeError) and has_misfit(obj) \
                and spec.get('what') != 'plain' and 'DataArray' in str(e):
            cls = CLS_JSON
        else:
            cls = f'save-raises-{type(e).__name__}'
        viol.append({'cls': cls,
                     'what': f'{where}: save raises {type(e).__name__}: '
                             f'{str(e)[:150]}',
                     'observed': repr(e)[:300]})
        return False


def narrow(spec, viol, formats=()):
    """Narrow classes: the receiver-less survey is its own finding; the
    format-specific findings (npz drops empty dicts, json loses the shape of
    zero-size arrays) keep their plain class name only if that format was
    involved, so that the same symptom in another format is still new."""
    formats = set(formats)
    for v in viol:
        if v['cls'] == 'empty-dict-dropped' and 'npz' not in formats:
            v['cls'] = 'empty-dict-dropped-without-npz'
        if v['cls'] == 'zero-size-array-shape-lost' and 'json' not in formats:
            v['cls'] = 'zero-size-array-shape-lost-without-json'
        if v['cls'] == 'zero-dim-dtype-lost' and not (
                {'h5', 'json'} <= formats):
            v['cls'] = 'zero-dim-dtype-lost-without-h5-and-json'
    if spec['kind'] == 'survey' and spec.get('variant') == 'no-receivers':
        for v in viol:
            if not v['cls'].startswith('survey-without-receivers-'):
                v['cls'] = 'survey-without-receivers-' + v['cls']
            if not formats & {'npz', 'json'}:
                v['cls'] += '-without-npz-or-json'


def describe(spec):
    return '/'.join(str(spec[k]) for k in sorted(spec) if k != 'kind')


def roundtrip(c):
    spec, fmt, method = c['obj'], c['fmt'], c.get('method', False)
    viol = []
    stats = {'compared': 0}
    where = f"{spec['kind']}({describe(spec)}) {fmt}" + \
        (' to_file' if method else '')
    with tempfile.TemporaryDirectory(prefix='c17_') as tmp, \
            warnings.catch_warnings():
        warnings.simplefilter('ignore')
        obj = build(spec, tmp)
        fname = os.path.join(tmp, f'file.{fmt}')
        ok = save_guard(obj, spec, fname, method, fmt, viol, where)
        ndiff = None
        if ok:
            try:
                loaded, meta = do_load(obj, fname, method)
            except Exception as e:                 # noqa
                viol.append({'cls': f'load-raises-{type(e).__name__}',
                             'what': f'{where}: load raises '
                                     f'{type(e).__name__}: {str(e)[:150]}'})
                loaded = None
            if loaded is not None:
                d = check_content(obj, loaded, spec, where, viol, stats)
                ndiff = len(d.items)
                if meta is not None and not all(
                        isinstance(v, str) for v in meta.values()):
                    viol.append({'cls': 'file-metadata-missing',
                                 'what': f'{where}: {meta}'})
                if spec['kind'] == 'simulation' and \
                        type(loaded).__name__ == 'Simulation':
                    sim_behaviour(obj, loaded, spec, where, viol, stats)
    narrow(spec, viol, [fmt])
    return {'viol': viol, 'compared': stats['compared'], 'transitions': 2,
            'nontrivial': ok, 'outcome': (spec['kind'], fmt, ok, ndiff,
                                          tuple(sorted({v['cls']
                                                        for v in viol}))),
            'count': {f'kind_{spec["kind"]}': 1,
                      'behaviour_checks': stats.get('behaviour', 0)}}


def chain(c):
    """save in c['start'], then convert along c['chain']; compare with the
    original after every conversion."""
    import emg3d
    spec, start, steps = c['obj'], c['start'], list(c['chain'])
    viol = []
    stats = {'compared': 0}
    base = f"{spec['kind']}({describe(spec)})"
    done = 0
    with tempfile.TemporaryDirectory(prefix='c17_') as tmp, \
            warnings.catch_warnings():
        warnings.simplefilter('ignore')
        obj = build(spec, tmp)
        cur = os.path.join(tmp, f'f0.{start}')
        ok = save_guard(obj, spec, cur, False, start, viol, f'{base} {start}')
        path = [start]
        while ok and done < len(steps):
            fmt = steps[done]
            nxt = os.path.join(tmp, f'f{done+1}.{fmt}')
            path.append(fmt)
            where = f"{base} {'->'.join(path)}"
            try:
                with contextlib.redirect_stdout(io.StringIO()):
                    emg3d.io.convert(cur, nxt, verb=0)
            except Exception as e:                 # noqa
                cls = f'convert-raises-{type(e).__name__}'
                viol.append({'cls': cls, 'what': f'{where}: convert raises '
                             f'{type(e).__name__}: {str(e)[:150]}'})
                break
            done += 1
            cur = nxt
            try:
                loaded, meta = do_load(obj, cur, False)
            except Exception as e:                 # noqa
                viol.append({'cls': f'load-raises-{type(e).__name__}',
                             'what': f'{where}: load raises '
                                     f'{type(e).__name__}: {str(e)[:150]}'})
                break
            # a converted Simulation file holds what the first save selected
            check_content(obj, loaded, spec, where, viol, stats)
            if viol:
                break
        if ok and done == len(steps) and spec['kind'] == 'simulation' and \
                not viol and c.get('behaviour'):
            sim_behaviour(obj, loaded, spec, f"{base} {'->'.join(path)}",
                          viol, stats)
    narrow(spec, viol, path)
    return {'viol': viol, 'compared': stats['compared'],
            'transitions': 1 + done, 'nontrivial': done > 0,
            'outcome': (spec['kind'], start, tuple(steps[:done]),
                        tuple(sorted({v['cls'] for v in viol}))),
            'count': {'conversions': done}}


# ------------------------------------------------- E2: histories on one object
FN_E3 = 'mc.checks.c17_io:sim_history'
HIST_OPS = ([f'to_file:{f}:{w}' for f in FORMATS
             for w in ('computed', 'results', 'plain')] +
            [f'save:{f}' for f in FORMATS] +
            [f'to_dict:{w}' for w in ('computed', 'results', 'all', 'plain')] +
            [f'copy:{w}' for w in ('computed', 'results', 'all', 'plain')])


def _product(sim, op, tmp, tag):
    """What the serialising operation `op` produces (as a to_dict tree)."""
    import emg3d
    parts = op.split(':')
    if parts[0] == 'to_file':
        fn = os.path.join(tmp, f'{tag}.{parts[1]}')
        sim.to_file(fn, what=parts[2], name='obj', verb=0)
        return type(sim).from_file(fn, name='obj', verb=0).to_dict('computed')
    if parts[0] == 'save':
        fn = os.path.join(tmp, f'{tag}.{parts[1]}')
        emg3d.save(fn, obj=sim, verb=0)
        return emg3d.load(fn, verb=0)['obj'].to_dict('computed')
    if parts[0] == 'to_dict':
        return sim.to_dict(parts[1], copy=True)
    if parts[0] == 'copy':
        return sim.copy(parts[1]).to_dict('computed')
    raise ValueError(op)


def _strip_times(x):
    """Drop wall-clock dependent entries of the solver info dicts."""
    if isinstance(x, dict):
        return {k: _strip_times(v) for k, v in x.items()
                if k not in ('time', 'runtime_at_cycle', 'log')}
    return x


def sim_history(c):
    """A serialising operation must produce the same thing whatever
    serialising operations were applied to the same object before: the last
    operation of the history is repeated on a twin object without history."""
    spec, hist = c['obj'], list(c['hist'])
    viol = []
    n = 0
    with tempfile.TemporaryDirectory(prefix='c17h_') as tmp, \
            warnings.catch_warnings():
        warnings.simplefilter('ignore')
        sim = build(spec, tmp)
        twin = build(spec, tmp)
        try:
            for i, op in enumerate(hist[:-1]):
                _product(sim, op, tmp, f'h{i}')
            got = _product(sim, hist[-1], tmp, 'last')
            want = _product(twin, hist[-1], tmp, 'twin')
        except Exception as e:  # noqa
            return {'viol': [{'cls': f'history-raises-{type(e).__name__}',
                              'what': f'{hist}: {str(e)[:200]}'}]}
        d = Diff()
        compare(_strip_times(want), _strip_times(got), 'obj', d)
        n = d.n
        seen = set()
        for cls, path, what in d.items:
            if cls in seen:
                continue
            seen.add(cls)
            viol.append({'cls': 'serialisation-depends-on-history-' + cls,
                         'what': f'{describe(spec)} history {hist}: {path}: '
                                 f'{what}'})
    return {'viol': viol, 'compared': n, 'transitions': len(hist),
            'nontrivial': len(hist) > 1, 'outcome': (hist[-1], n)}


def chains_of(length):
    """All maximal chains: every step goes to another format."""
    out = []
    for start in FORMATS:
        def rec(cur, left, acc):
            if left == 0:
                out.append((start, tuple(acc)))
                return
            for f in FORMATS:
                if f != cur:
                    rec(f, left - 1, acc + [f])
        rec(start, length, [])
    return out


def prepare(ctx):
    """JIT warm-up in the parent (a failure here resurfaces in the cases,
    where it is reported as a violation)."""
    try:
        with tempfile.TemporaryDirectory(prefix='c17_') as tmp, \
                warnings.catch_warnings():
            warnings.simplefilter('ignore')
            make_simulation({'variant': 'gradient', 'n': 4}, tmp)
    except Exception as e:                          # noqa
        ctx.log(f'warm-up failed: {type(e).__name__}: {e}')


def run(ctx):
    prepare(ctx)
    ctx.assume(
        "the zoo is a fixed list of objects (every registered class x "
        "variants; values from fixed alphabets and one seeded profile); "
        "string values 'NoneType', keys containing '>' and non-string keys "
        "are outside the alphabet (documented limitations of emg3d.io)",
        "Python and NumPy scalars of one kind are the same scalar and a 0-d "
        "array counts as the scalar of its kind (what h5 / npz return on the "
        "unchanged tree)",
        "Simulations use 4^3..8^3 grids, gridding='same', two multigrid "
        "cycles; behavioural equality = misfit and gradient of the reloaded "
        "simulation equal the original's",
        "conversion chains are bounded in length (3 quick / 4 thorough); "
        "every step converts to another format")
    specs = zoo_specs(ctx.tier)
    cap = ctx.budget or (340 if ctx.quick else 1680)
    if ctx.wants('roundtrip'):
        cases = []
        for spec in specs:
            for fmt in FORMATS:
                cases.append({'obj': spec, 'fmt': fmt, 'method': False})
                if spec['kind'] in ('survey', 'simulation'):
                    cases.append({'obj': spec, 'fmt': fmt, 'method': True})
        ctx.explore('roundtrip', FN_E1, cases, engine='E1',
                    rule=f'zoo of {len(specs)} objects x 3 formats through '
                         'emg3d.save/load (+ to_file/from_file for Survey '
                         'and Simulation); non-trivial = file written',
                    time_cap=cap*0.4)
    if ctx.wants('histories'):
        import itertools
        depth = 2 if ctx.quick else 3
        hspecs = [sp for sp in specs if sp['kind'] == 'simulation' and
                  sp.get('variant') in ('gradient', 'file')
                  and sp.get('what', 'computed') == 'computed'][
                      :1 if ctx.quick else 2]
        cases = [{'obj': sp, 'hist': list(h)} for sp in hspecs
                 for L in range(1, depth+1)
                 for h in itertools.product(HIST_OPS, repeat=L)]
        ctx.explore('histories', FN_E3, cases, engine='E2',
                    rule=f'all sequences of <= {depth} serialising operations '
                         f'({len(HIST_OPS)}: to_file x9, save x3, to_dict x4, '
                         'copy x4) on one computed Simulation; the last '
                         'product must equal that of a twin without history',
                    time_cap=cap*0.5)
    if ctx.wants('chains'):
        length = 3 if ctx.quick else 4
        cases = []
        for spec in specs:
            for start, steps in chains_of(length):
                cases.append({'obj': spec, 'start': start, 'chain': steps,
                              'behaviour': spec['kind'] == 'simulation'})
        ctx.explore('chains', FN_E2, cases, engine='E2',
                    rule=f'zoo of {len(specs)} objects x all chains of '
                         f'emg3d.io.convert of length {length} (every step '
                         'to another format; all shorter chains are their '
                         'prefixes and are compared too) from each of the 3 '
                         'initial formats; non-trivial = at least one '
                         'conversion done',
                    time_cap=max(5.0, cap - ctx.elapsed()))
        ctx.notes['chain_length'] = length
