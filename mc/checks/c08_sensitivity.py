"""C08 - J v is the data derivative, J^T its exact adjoint.

E1 over (problem x gridding mode x execution mode).  The real jvec is applied
to EVERY model basis vector and the real jtvec to EVERY data basis vector e_k
and i*e_k, giving the complete matrices J and T; oracle: (a) gridding 'same':
J equals the exact reference Jacobian; (b) every gridding mode:
T = [Re J^T, Im J^T]  <=>  Re<w, J v> = <J^T w, v> for all v, w;
(c) jtvec(residual*weights) == gradient.
"""
import os
import shutil
import tempfile
import warnings

import numpy as np

from .. import impl, zoo
from ..refmodel import adjoint

FN = 'mc.checks.c08_sensitivity:case'

GOPTS = {'vector': 'xyz', 'cell_numbers': [8, 12, 16], 'max_buffer': 300,
         'lambda_factor': 0.2, 'min_width_limits': 80,
         'stretching': [1, 2.0]}

# per-source domains (translated copies of one grid for different sources)
GOPTS_D = {'distance': [[150, 150], [150, 150], [120, 120]],
           'cell_numbers': [8, 12, 16], 'min_width_limits': 60,
           'stretching': [1, 2.0], 'max_buffer': 300, 'lambda_factor': 0.2}

PROBLEMS = {
    # name: (case, mapping, source kinds, receiver kinds, nfreq)
    'iso': ('isotropic', 'Conductivity', ('dip', 'point'), 'EH', 1),
    'vti': ('VTI', 'LgResistivity', ('dip',), 'EHE', 2),
    'hti': ('HTI', 'Resistivity', ('mdip',), 'HE', 1),
    'tri': ('triaxial', 'LnConductivity', ('dip',), 'EH', 1),
    # two sources x two frequencies (result storage by source AND frequency),
    # observed data with gaps: the first receiver of one pair, a middle one
    # of another (adjoint sources are assembled from receivers WITH data)
    'gap': ('isotropic', 'LgConductivity', ('dip', 'point'), 'EHE', 2),
}


def make(pname, gridding, file_dir=None, tol=None, rel=False, gopts=None):
    import emg3d
    case_, mapping, skinds, rkinds, nfreq = PROBLEMS[pname]
    h = [np.array([120., 90, 100, 130])*s for s in (1.0, 1.1, 0.9)]
    grid = emg3d.TensorMesh(h, origin=(-220., -230., -390.))
    model = zoo.model(grid, {'case': case_, 'prof': 'rnd',
                             'mapping': mapping})
    srcs = []
    for i, k in enumerate(skinds):
        c = (-60.+50*i, 20.-40*i, -200.+15*i)
        if k == 'dip':
            srcs.append(emg3d.TxElectricDipole((*c, 30., 10.), length=15.,
                                               strength=1.5-0.5j))
        elif k == 'point':
            srcs.append(emg3d.TxElectricPoint((*c, -20., 70.)))
        elif k == 'mdip':
            srcs.append(emg3d.TxMagneticDipole((*c, 50., -25.), length=20.))
    pos = [(60., -40., -150.), (40., 50., -180.), (-20., 60., -130.)]
    if rel:
        pos = [(70., -30., 30.), (50., 40., 10.), (-10., 50., 40.)]
    ang = [(20., 5.), (-40., 10.), (90., 0.)]
    recs = []
    for p, a, kd in zip(pos, ang, rkinds):
        cls = emg3d.RxElectricPoint if kd == 'E' else emg3d.RxMagneticPoint
        recs.append(cls((*p, *a), relative=rel))
    freqs = [1.0, 2.0][:nfreq]
    survey = emg3d.Survey(
        sources=emg3d.surveys.txrx_lists_to_dict(srcs),
        receivers=emg3d.surveys.txrx_lists_to_dict(recs), frequencies=freqs,
        noise_floor=1e-12, relative_error=0.05)
    r = zoo.rng('c08', 'obs', pname)
    d = (r.standard_normal(survey.shape) +
         1j*r.standard_normal(survey.shape))*1e-10
    if pname == 'gap':
        d[0, 0, 0] = np.nan + 1j*np.nan      # first receiver, pair (0, 0)
        d[1, 1, 0] = np.nan + 1j*np.nan      # middle receiver, pair (1, 0)
        d[0, 1, 1] = np.nan + 1j*np.nan
        d[0, 2, 1] = np.nan + 1j*np.nan      # last two, pair (0, 1)
    survey.data['observed'] = (survey.data.observed.dims, d)
    kw = {}
    if gridding in ('input', 'dict'):
        # user-provided computational grids: one with the SAME number of
        # cells as the model grid but other widths and origin, one finer
        hs = [np.array([100., 115, 95, 120])*s for s in (1.1, 1.0, 1.05)]
        g_same = emg3d.TensorMesh(hs, origin=(-215., -215., -400.))
        hf = [np.array([60., 55, 50, 50, 55, 60, 70, 80])*s
              for s in (1.0, 1.05, 0.95)]
        g_fine = emg3d.TensorMesh(hf, origin=(-240., -250., -410.))
        if gridding == 'input':
            kw['gridding_opts'] = g_same
        else:
            kw['gridding_opts'] = {
                sk: {fk: (g_same, g_fine)[(i + j) % 2]
                     for j, fk in enumerate(survey.frequencies)}
                for i, sk in enumerate(survey.sources)}
    elif gridding != 'same':
        kw['gridding_opts'] = dict(GOPTS_D if gopts == 'distance' else GOPTS)
    so = {} if tol is None else {'tol': tol, 'maxit': 200}
    sim = emg3d.Simulation(survey, model, max_workers=1, gridding=gridding,
                           receiver_interpolation='linear', tqdm_opts=False,
                           verb=-1, file_dir=file_dir, solver_opts=so, **kw)
    return sim


def nblocks(case_):
    return {'isotropic': 1, 'VTI': 2, 'HTI': 2, 'triaxial': 3}[case_]


def case(c):
    pname, gridding = c['problem'], c['gridding']
    real = c.get('real', False)
    tmp = tempfile.mkdtemp(prefix='c08_') if c.get('file') else None
    viol = []
    compared = 0

    def V(cls, what):
        viol.append({'cls': cls, 'what': f'{pname}/{gridding}'
                     f'{"/file" if tmp else ""}{"/real" if real else ""}: '
                     + what})
    try:
        with warnings.catch_warnings():
            warnings.simplefilter('ignore')
            sim = make(pname, gridding, tmp, 1e-11 if real else None,
                       c.get('rel', False), c.get('gopts'))
            if c.get('via') == 'copy':     # the products on a copy / reload
                sim = sim.copy(what='plain')
            elif c.get('via'):
                import emg3d
                with tempfile.TemporaryDirectory(prefix='c08v_') as td:
                    fn = os.path.join(td, 'sim.' + c['via'])
                    sim.to_file(fn, what='plain', verb=0)
                    sim = emg3d.Simulation.from_file(fn, verb=0)
            n = tuple(sim.model.grid.shape_cells)
            nb = nblocks(sim.model.case)
            nc = int(np.prod(n))
            shape = sim.survey.shape
            nd = int(np.prod(shape))
            fails = []
            ctxm = adjoint.exact_mode() if not real else _record_exits(fails)
            with ctxm:
                g = np.array(sim.gradient)
                res = np.array(sim.data.residual.data)
                wts = np.array(sim.data.weights.data)
                # J: jvec on every model basis vector
                J = np.zeros((nd, nb*nc), dtype=complex)
                for b in range(nb):
                    for cc in range(nc):
                        v = np.zeros((nb, nc))
                        v[b, cc] = 1.0
                        v = v.reshape((nb,)+n, order='F')
                        if nb == 1:
                            v = v[0]
                        J[:, b*nc+cc] = np.array(sim.jvec(v)).ravel()
                # T: jtvec on every data basis vector e_k and i e_k
                Tre = np.zeros((nb*nc, nd))
                Tim = np.zeros((nb*nc, nd))
                for k in range(nd):
                    for fac, T in ((1.0, Tre), (1j, Tim)):
                        w = np.zeros(nd, dtype=complex)
                        w[k] = fac
                        out = np.array(sim.jtvec(w.reshape(shape)))
                        T[:, k] = out.reshape((nb, nc), order='F').ravel() \
                            if nb > 1 else out.ravel('F')
                # state after jtvec(w) with arbitrary w: the stored residual
                # and the misfit gradient are those of the data
                res_mid = np.array(sim.data.residual.data)
                g_mid = np.array(sim.gradient)
                gt = np.array(sim.jtvec(res*wts))
                g_after = np.array(sim.gradient)
            tol = 1e-8 if not real else 2e-6
            # data slots without a finite observation take no part in J^T
            # (no residual, no adjoint source): the identity is demanded for
            # all w supported on the observed slots
            obs_ok = np.isfinite(np.asarray(
                sim.data.observed.data)).ravel()
            sc = np.abs(J[obs_ok]).max()
            e_re = np.abs(Tre[:, obs_ok] - J.real.T[:, obs_ok]).max()/sc
            e_im = np.abs(Tim[:, obs_ok] - J.imag.T[:, obs_ok]).max()/sc
            if (~obs_ok).any() and max(np.abs(Tre[:, ~obs_ok]).max(),
                                       np.abs(Tim[:, ~obs_ok]).max()) > 0:
                V('jtvec-uses-data-slots-without-observation',
                  'J^T e_k is non-zero for a slot k without finite '
                  'observed data')
            compared += 2*nd
            if not max(e_re, e_im) <= tol:
                V('jtvec-is-not-the-adjoint-of-jvec',
                  f'max |T - [Re J^T, Im J^T]| / max|J| = '
                  f'{max(e_re, e_im):.2e} (re {e_re:.2e}, im {e_im:.2e})')
            gs = np.abs(g).max()
            if not np.abs(gt - g).max() <= max(tol, 1e-7)*gs:
                V('jtvec-of-weighted-residual-is-not-the-gradient',
                  f'rel. difference {np.abs(gt - g).max()/gs:.2e}')
            if not np.abs(g_after - g).max() <= max(tol, 1e-7)*gs:
                V('gradient-changed-by-jvec-jtvec-calls',
                  f'rel. difference {np.abs(g_after - g).max()/gs:.2e}')
            if not np.abs(g_mid - g).max() <= max(tol, 1e-7)*gs:
                V('gradient-after-jtvec-of-other-vector-is-not-the-misfit-'
                  'gradient',
                  f'rel. difference {np.abs(g_mid - g).max()/gs:.2e}')
            fin_ = np.isfinite(res)
            if not np.array_equal(np.isfinite(res_mid), fin_) or not np.abs(
                    res_mid[fin_] - res[fin_]).max() <= 1e-9*np.abs(
                        res[fin_]).max():
                V('stored-residual-changed-by-jtvec',
                  'data.residual after jtvec(w) is not synthetic - observed')
            if gridding == 'same':
                ref = adjoint.Reference(sim)
                Jr = ref.jacobian().reshape(nd, nb*nc)
                compared += nb*nc
                e = np.abs(J - Jr).max()/np.abs(Jr).max()
                if not e <= tol:
                    k = np.unravel_index(np.argmax(np.abs(J-Jr)), J.shape)
                    V('jvec-differs-from-exact-data-derivative',
                      f'max |J - J_ref| / max|J_ref| = {e:.2e} at '
                      f'(datum, parameter) = {k}')
                gr = ref.gradient(ref.jacobian())
                if not np.abs(g - gr).max() <= tol*np.abs(gr).max():
                    V('gradient-differs-from-exact-derivative',
                      f'{np.abs(g - gr).max()/np.abs(gr).max():.2e}')
            inconclusive = False
            if real:
                # a solve that reports failure says nothing about J / J^T
                inconclusive = bool(fails) or any(
                    sim.get_efield_info(s, f)['exit'] != 0
                    for s, f in sim._srcfreq)
                if inconclusive:
                    viol.clear()
    finally:
        if tmp:
            shutil.rmtree(tmp, ignore_errors=True)
    return {'viol': viol, 'compared': compared,
            'transitions': nb*nc + 2*nd + 2, 'nontrivial': sc > 0,
            'outcome': (pname, gridding, bool(tmp), real, inconclusive,
                        c.get('gopts'), c.get('via')),
            'count': {'jvec_calls': nb*nc, 'jtvec_calls': 2*nd + 1,
                      'real_inconclusive': int(inconclusive)}}


class _record_exits:
    """Real-solver mode: record every solve that reports failure."""

    def __init__(self, fails):
        self.fails = fails

    def __enter__(self):
        import emg3d._multiprocessing as mp_
        self.mp_, self.old = mp_, mp_.solve
        fails, old = self.fails, self.old

        def solve(inp):
            out = old(inp)
            info = out[1]
            if isinstance(info, dict) and info.get('exit', 0) != 0:
                fails.append(info.get('exit_message'))
            return out
        mp_.solve = solve
        return self

    def __exit__(self, *a):
        self.mp_.solve = self.old
        return False


def prepare(ctx):
    impl.warm()


def run(ctx):
    prepare(ctx)
    q = ctx.quick
    ctx.assume(
        "model grid 4x4x4 so that full model and data bases are affordable; "
        "computational grids of the automatic gridding modes are 8^3 "
        "(gridding_opts with small cell_numbers)",
        "bulk in exact mode (direct solve of the reference operator on the "
        "computational grid), tolerance 1e-8; covering subset with the real "
        "solver (tol 1e-11), tolerance 2e-6, unconverged => inconclusive")
    cs = []
    for p in PROBLEMS:
        for g in ('same', 'single', 'frequency', 'source', 'both'):
            if q and p in ('hti',) and g not in ('same', 'both'):
                continue
            cs.append({'problem': p, 'gridding': g})
    cs += [{'problem': p, 'gridding': g} for g in ('input', 'dict')
           for p in (('iso', 'vti') if q else PROBLEMS)]
    cs += [{'problem': 'iso', 'gridding': g, 'file': True}
           for g in ('same', 'both')]
    cs += [{'problem': 'vti', 'gridding': 'same', 'via': v}
           for v in (('copy', 'npz') if q else ('copy', 'h5', 'npz', 'json'))]
    cs += [{'problem': 'vti', 'gridding': 'same', 'rel': True},
           {'problem': 'iso', 'gridding': 'source', 'rel': True}]
    cs += [{'problem': 'iso', 'gridding': g, 'gopts': 'distance'}
           for g in ('source', 'both')]
    cs += [{'problem': 'iso', 'gridding': 'same', 'real': True},
           {'problem': 'vti', 'gridding': 'both', 'real': True}]
    if not q:
        cs += [{'problem': p, 'gridding': g, 'file': True}
               for p in ('vti', 'tri') for g in ('same', 'frequency',
                                                 'source')]
        cs += [{'problem': p, 'gridding': g, 'real': True}
               for p in ('tri', 'hti') for g in ('same', 'single')]
    cs.sort(key=lambda c: -nblocks(PROBLEMS[c['problem']][0]))
    ctx.explore('jacobian-matrices', FN, cs, engine='E1',
                rule='per (problem, gridding mode, execution mode): real jvec '
                     'on every model basis vector, real jtvec on every data '
                     'basis vector e_k and i e_k; matrix identities',
                time_cap=ctx.budget or (800 if q else 4800), chunksize=1)
