"""C03 - every smoother is a consistent relaxation of the same linear system.

E1: shapes x widths x models x real/complex x lr_dir 0..7 x nu.  The real
smoother S(x, b) = M x + N b is applied to the full interior unit bases (x and
b), giving M and N exactly; oracle  M + N A_ref = I  (<=> every exact solution
is a fixed point), affinity, zero residual of the block relaxed last, boundary
entries untouched; the banded solver core.solve against numpy.linalg.solve.
"""
import itertools

import numpy as np

from .. import zoo, impl
from ..refmodel import fit

FN = 'mc.checks.c03_smoothers:case'
FN_B = 'mc.checks.c03_smoothers:banded_case'
FN_P = 'mc.checks.c03_smoothers:pyfunc_case'

FREQS = (10.0, -50.0)
MODELS_Q = [
    {'case': 'isotropic', 'prof': 'rnd'},
    {'case': 'VTI', 'prof': 'rnd', 'mu_r': True},
    {'case': 'HTI', 'prof': 'rnd'},
    {'case': 'triaxial', 'prof': 'rnd', 'mu_r': True},
]
MODELS_T = [{'case': c, 'prof': 'rnd', 'mu_r': m}
            for c in zoo.CASES for m in (False, True)]


def adapted_lr(lr, n):
    """Reference for the documented adaptation: a line direction with only
    two cells is dropped (1:x 2:y 3:z 4:yz 5:xz 6:xy 7:xyz)."""
    dirs = {0: set(), 1: {0}, 2: {1}, 3: {2}, 4: {1, 2}, 5: {0, 2},
            6: {0, 1}, 7: {0, 1, 2}}[int(lr)]
    return sorted(d for d in dirs if n[d] > 2)


def corner_blocks(n, dirs):
    """Index sets (into the field vector) of the candidate 'last' blocks:
    for the kernel applied last (point: nodes; line along d: lines), the
    blocks adjacent to the 8 (4) corners of the interior."""
    nx, ny, nz = n
    sh = fit.shapes(n)
    off = np.cumsum([0] + fit.nedges(n))

    def eidx(d, i, j, k):
        return off[d] + np.ravel_multi_index((i, j, k), sh[d], order='F')

    def node_edges(i, j, k):
        return [eidx(0, i-1, j, k), eidx(0, i, j, k),
                eidx(1, i, j-1, k), eidx(1, i, j, k),
                eidx(2, i, j, k-1), eidx(2, i, j, k)]
    blocks = []
    rng_ = [(1, nx-1), (1, ny-1), (1, nz-1)]
    if not dirs:
        for i, j, k in itertools.product(*rng_):
            blocks.append(sorted(set(node_edges(i, j, k))))
    else:
        d = dirs[-1]    # kernels are applied in the order x, y, z
        others = [o for o in range(3) if o != d]
        for a, b in itertools.product(rng_[others[0]], rng_[others[1]]):
            s = set()
            for t in range(1, n[d]):
                ijk = [0, 0, 0]
                ijk[d], ijk[others[0]], ijk[others[1]] = t, a, b
                s.update(node_edges(*ijk))
            blocks.append(sorted(s))
    return blocks


LAYOUT = ['contiguous']      # set per case: memory layout of the field data
LAYOUTS = ('contiguous', 'every-2nd', 'column', 'real-view')


def _as_layout(v, layout):
    """The vector v in a buffer of the given memory layout (a view)."""
    v = np.asarray(v)
    if layout == 'every-2nd':            # strided view into a larger buffer
        buf = np.full(2*v.size + 1, 7.7, dtype=v.dtype)
        buf[1::2] = v
        return buf[1::2]
    if layout == 'column':               # one column of a C-ordered 2-D array
        buf = np.full((v.size, 3), 7.7, dtype=v.dtype)
        buf[:, 1] = v
        return buf[:, 1]
    if layout == 'real-view' and v.dtype.kind != 'c':
        buf = np.full(v.size, 7.7j, dtype=complex)
        buf.real = v
        return buf.real                  # the .real view of a complex vector
    return np.array(v)


def smooth(vm, grid, freq, x, b, nu, lr, direct=None):
    """Apply the real smoother; returns the new field vector.  The field
    data lives in memory of the layout selected for the case (the smoother
    works in place on whatever the Field holds)."""
    import emg3d
    e = emg3d.Field(grid, data=_as_layout(x, LAYOUT[0]), frequency=freq)
    s = emg3d.Field(grid, data=np.array(b), frequency=freq)
    emg3d.solver.smoothing(vm, s, e, nu, lr)
    return np.array(e.field)


def case(c):
    LAYOUT[0] = c.get('layout', 'contiguous')
    grid = zoo.mesh({'shape': c['shape'], 'w': c['w']})
    model = zoo.model(grid, c['model'])
    freq = c['freq']
    nu, lr = c['nu'], c['lr']
    vm, sfield = impl.vmodel_and_sfield(model, freq)
    dtype = sfield.field.dtype
    n = tuple(grid.shape_cells)
    im = fit.interior_mask(n)
    idx = np.flatnonzero(im)
    A = fit.assemble_for(model, zoo.sval_of(freq))
    if np.dtype(dtype).kind != 'c':
        A = A.real
    Ai = A[idx][:, idx].toarray()
    viol = []
    compared = 0
    N_ = im.size
    zero = np.zeros(N_, dtype=dtype)

    def V(cls, what, **kw):
        viol.append(dict(cls=cls, what=what, **kw))

    scaleA = np.abs(Ai).max()
    if c.get('full', True):
        M = np.zeros((idx.size, idx.size), dtype=dtype)
        Nm = np.zeros((idx.size, idx.size), dtype=dtype)
        for k, j in enumerate(idx):
            u = zero.copy()
            u[j] = 1.0
            M[:, k] = smooth(vm, grid, freq, u, zero, nu, lr)[idx]
            # scale b so that N has O(1) entries
            Nm[:, k] = smooth(vm, grid, freq, zero, u*scaleA, nu, lr)[idx]
        compared += 2*idx.size
        cons = np.abs(M + Nm @ (Ai/scaleA) - np.eye(idx.size)).max()
        if not cons <= 1e-10:
            V('smoother-not-consistent',
              f'|M + N A - I| = {cons:.2e} (lr={lr}, nu={nu})')
    # exact solution is a fixed point (single vector; also for nu 3,4)
    b = zoo.random_field(grid, ('b', lr, nu), dtype)*scaleA
    xs = fit.solve_direct(A, b, n).astype(dtype)
    out = smooth(vm, grid, freq, xs, b, nu, lr)
    fp = np.abs(out - xs).max()/np.abs(xs).max()
    compared += 1
    if not fp <= 1e-10:
        V('exact-solution-not-fixed', f'|S(x*) - x*| = {fp:.2e} (relative; '
          f'lr={lr}, nu={nu})')
    # affinity
    x0 = zoo.random_field(grid, ('x0', lr, nu), dtype)
    s00 = smooth(vm, grid, freq, zero, zero, nu, lr)
    if np.abs(s00).max() != 0:
        V('smoother-not-affine', 'S(0,0) != 0')
    sx = smooth(vm, grid, freq, x0, b, nu, lr)
    if c.get('full', True):
        pred = M @ x0[idx] + Nm @ (b[idx]/scaleA)
        aff = np.abs(sx[idx] - pred).max()/max(np.abs(pred).max(), 1e-300)
        compared += 1
        if not aff <= 1e-10:
            V('smoother-not-affine',
              f'S(x0,b0) differs from M x0 + N b0 by {aff:.2e}')
    else:
        s1 = smooth(vm, grid, freq, x0, zero, nu, lr)
        s2 = smooth(vm, grid, freq, zero, b, nu, lr)
        aff = np.abs(sx - s1 - s2).max()/np.abs(sx).max()
        if not aff <= 1e-10:
            V('smoother-not-affine', f'S(x,b) != S(x,0)+S(0,b): {aff:.2e}')
    # (c) block relaxed last has zero residual
    dirs = adapted_lr(lr, n)
    res = (b - A @ sx)
    bn = np.linalg.norm(b)
    best = min(np.linalg.norm(res[blk]) for blk in corner_blocks(n, dirs))
    compared += 1
    if not best <= 1e-10*bn:
        V('last-block-not-solved',
          f'no corner block of the last kernel has zero residual '
          f'(min {best/bn:.2e} rel.; lr={lr}->{dirs}, nu={nu})')
    # (d) boundary values never written (sentinels)
    xsent = x0.copy()
    sent = np.arange(1, N_+1)*(1.0 + (0.5j if np.dtype(dtype).kind == 'c'
                                      else 0.0))
    xsent[~im] = sent[~im]
    os_ = smooth(vm, grid, freq, xsent, b, nu, lr)
    if not np.array_equal(os_[~im], xsent[~im]):
        V('boundary-written', f'{np.count_nonzero(os_[~im] != xsent[~im])} '
          'tangential boundary entries changed')
    return {'viol': viol, 'compared': compared,
            'transitions': (2*idx.size if c.get('full', True) else 0) + 6,
            'nontrivial': idx.size > 0,
            'outcome': (tuple(dirs), nu % 2, idx.size > 20)}


def pyfunc_case(c):
    """Compiled kernel == its Python source, called directly."""
    import emg3d
    from emg3d import core
    grid = zoo.mesh({'shape': c['shape'], 'w': c['w']})
    model = zoo.model(grid, c['model'])
    freq = c['freq']
    vm, sfield = impl.vmodel_and_sfield(model, freq)
    dtype = sfield.field.dtype
    b = zoo.random_field(grid, 'pb', dtype)
    x0 = zoo.random_field(grid, 'px', dtype)
    kern = getattr(core, c['kernel'])
    outs = []
    for fn in (kern, kern.py_func):
        e = emg3d.Field(grid, data=x0.copy(), frequency=freq)
        s = emg3d.Field(grid, data=b.copy(), frequency=freq)
        fn(e.fx, e.fy, e.fz, s.fx, s.fy, s.fz, vm.eta_x, vm.eta_y, vm.eta_z,
           vm.zeta, grid.h[0], grid.h[1], grid.h[2], c['nu'])
        outs.append(np.array(e.field))
    d = np.abs(outs[0] - outs[1]).max()/np.abs(outs[1]).max()
    viol = []
    if not d <= 1e-10:
        viol.append({'cls': 'jit-differs-from-python-source',
                     'what': f"{c['kernel']}: {d:.2e}"})
    return {'viol': viol, 'compared': 1, 'outcome': c['kernel']}


def banded_case(c):
    """core.solve on a complex-symmetric 11-diagonal matrix of size n."""
    from emg3d import core
    n = c['n']
    r = zoo.rng('band', n, c['kind'], c['dom'])
    cplx = c['kind'] == 'complex'
    full = np.zeros((n, n), dtype=complex if cplx else float)
    for k in range(0, min(6, n)):
        v = r.standard_normal(n-k) + (1j*r.standard_normal(n-k) if cplx
                                      else 0)
        if k == 0:
            v = v + (c['dom']*(1 + (0.5j if cplx else 0)))
        full += np.diag(v, -k)
        if k:
            full += np.diag(v, k)
    b = r.standard_normal(n) + (1j*r.standard_normal(n) if cplx else 0)
    amat = np.zeros(6*n, dtype=full.dtype)
    for j in range(n):
        for i in range(j, min(n, j+6)):
            amat[i+5*j] = full[i, j]
    ref = np.linalg.solve(full, b)
    viol = []
    for nm, fn in (('jit', core.solve), ('py', core.solve.py_func)):
        a2, b2 = amat.copy(), b.astype(full.dtype).copy()
        fn(a2, b2)
        err = np.abs(b2 - ref).max()/np.abs(ref).max()
        if not err <= 1e-9:
            viol.append({'cls': 'banded-solver-wrong',
                         'what': f'{nm}: n={n} {c["kind"]}: {err:.2e}'})
    return {'viol': viol, 'compared': 2, 'outcome': (min(n, 7), c['kind'])}


def prepare(ctx):
    impl.warm()


def run(ctx):
    prepare(ctx)
    q = ctx.quick
    ctx.assume(
        "shapes 2..4 (+5, thorough) per direction cover every distinct "
        "boundary/interior configuration of the point and line stencils",
        "the block relaxed last is identified up to the sweep orientation: "
        "one of the corner blocks of the last kernel must have zero residual",
        "widths / models from the value alphabets (stretched, anisotropic, "
        "mu_r); tolerance 1e-10")
    shapes = list(itertools.product((2, 3, 4), repeat=3))
    if not q:
        shapes += [(5, 3, 4), (3, 5, 2), (4, 2, 5), (5, 5, 5), (6, 4, 3)]
    cs = []
    for sh in shapes:
        for w in (('mix',) if q else ('mix', 'uni', 'geo')):
            for m in (MODELS_Q if q else MODELS_T):
                for f in FREQS:
                    for lr in range(8):
                        for nu in (1, 2, 3, 4):
                            i = len(cs)
                            cs.append({'shape': sh, 'w': w, 'model': m,
                                       'freq': f, 'lr': lr, 'nu': nu,
                                       'full': nu <= 2 or not q,
                                       'layout': LAYOUTS[(i + i//4 + i//32)
                                                         % len(LAYOUTS)]})
    ctx.explore('smoothers', FN, cs, engine='E1',
                rule='full product shape x widths x model x s x lr 0..7 x '
                     'nu 1..4 (memory layout of the field data rotating over '
                     'contiguous / strided / column / real-view); full '
                     'interior x- and b-bases for nu<=2 '
                     '(thorough: all nu); non-trivial = interior edges exist',
                time_cap=ctx.budget or (600 if q else 3000))
    cs = [{'n': n, 'kind': k, 'dom': d}
          for n in range(1, 15 if q else 41)
          for k in ('real', 'complex') for d in (8.0, 3.0)]
    ctx.explore('banded-solver', FN_B, cs, engine='E1',
                rule='all sizes n x real/complex x two diagonal dominances; '
                     'compiled and py_func vs numpy.linalg.solve',
                time_cap=60)
    cs = [{'shape': sh, 'w': 'mix', 'model': MODELS_Q[3], 'freq': f,
           'kernel': k, 'nu': nu}
          for sh in ((3, 3, 3), (3, 4, 3)) for f in FREQS
          for k in ('gauss_seidel', 'gauss_seidel_x', 'gauss_seidel_y',
                    'gauss_seidel_z') for nu in (1, 2)]
    ctx.explore('jit-vs-source', FN_P, cs, engine='E1',
                rule='four kernels called directly, compiled vs py_func',
                time_cap=120)
