"""C05 - grid hierarchy and V/W/F cycling are well-formed.

E1 over shapes x solver configurations, E4 over scripted fine-grid residual
answers, on the real control code (solve -> MGParameters -> multigrid ->
smoothing dispatch / restriction / _current_sc_dir / _current_lr_dir /
_terminate).  The numerical leaves are replaced by recorders so that every
shape up to 40^3 (thorough) is affordable; a conformance exploration repeats
small shapes with the real numerics and demands identical traces.
"""
import contextlib
import io
import itertools
import re

import numpy as np

from .. import impl
from ..refmodel import mgcycle

FN = 'mc.checks.c05_cycling:case'
FN_PREC = 'mc.checks.c05_cycling:case_prec'

SCRIPTS = {
    'const': lambda i: 1.0,
    'conv2': lambda i: 0.5**i if i < 2 else 1e-9,
    'conv5': lambda i: 0.5**i if i < 5 else 1e-9,
    'div3': lambda i: 0.9**i if i < 3 else 100.0,
    'slow': lambda i: 0.99**i,
    'nan2': lambda i: 0.5 if i < 2 else float('nan'),
}

DEFAULT = {'cycle': 'F', 'semicoarsening': False, 'linerelaxation': False,
           'clevel': -1, 'nu_init': 0, 'nu_pre': 2, 'nu_coarse': 1,
           'nu_post': 2, 'maxit': 50, 'script': 'const', 'plain': False}

DEVIATIONS = {
    'cycle': ['V', 'W'],
    'semicoarsening': [True, 1, 2, 3, 12, 1213, 30, 3021],
    'linerelaxation': [True, 1, 2, 3, 4, 5, 6, 7, 147],
    'clevel': [0, 1, 2, 3, 10],
    'nu_init': [1, 3],
    'nu_pre': [0, 1],
    'nu_post': [0, 3],
    'nu_coarse': [4],
    'maxit': [1, 3],
    'script': ['conv2', 'conv5', 'div3', 'slow', 'nan2'],
}

GS = re.compile(r"^\s+(\d+) (\d+) (\d+) \[\s*(\d+),\s*(\d+),\s*(\d+)\]: "
                r"\S+ (.*)$")
CY = re.compile(r"after\s+(\d+) ([FVW])-cycles\s+\[.*\]\s+(\d) (\d)\s*$")
QC = re.compile(r"^\s*(\d+)h_ (.*)$")


class Horizon(Exception):
    """More events than 10x the reference run: does not terminate."""


class Rec(list):
    limit = None

    def append(self, x):
        if self.limit is not None and len(self) > self.limit:
            raise Horizon(f'{len(self)} events, horizon {self.limit}')
        super().append(x)


@contextlib.contextmanager
def stubs(script, rec, leaves=True):
    """Replace the numerical leaves by recorders and script the fine-grid
    residual norm seen by the real _terminate."""
    import emg3d
    from emg3d import solver, core
    saved = {}

    def patch(mod, name, new):
        saved[(mod, name)] = getattr(mod, name)
        setattr(mod, name, new)

    def mk_gs(name):
        def gs(ex, ey, ez, sx, sy, sz, eta_x, eta_y, eta_z, zeta, hx, hy, hz,
               nu):
            rec.append(('K', name, (len(hx), len(hy), len(hz)), int(nu)))
        return gs

    def mk_gs_real(name, real):
        def gs(*a):
            rec.append(('K', name, (len(a[10]), len(a[11]), len(a[12])),
                        int(a[13])))
            return real(*a)
        return gs

    real_restrict = core.restrict
    real_prol = solver.prolongation

    def restrict(crx, cry, crz, rx, ry, rz, wx, wy, wz, sc_dir):
        rec.append(('R', (rx.shape[0], ry.shape[1], rz.shape[2]),
                    (crx.shape[0], cry.shape[1], crz.shape[2]), int(sc_dir)))
        if not leaves:
            real_restrict(crx, cry, crz, rx, ry, rz, wx, wy, wz, sc_dir)

    def prolongation(efield, cefield, sc_dir):
        rec.append(('P', tuple(int(x) for x in efield.grid.shape_cells),
                    tuple(int(x) for x in cefield.grid.shape_cells),
                    int(sc_dir)))
        if not leaves:
            real_prol(efield, cefield, sc_dir)

    def residual(model, sfield, efield, norm=False):
        return 1.0 if norm else sfield

    def restrict_weights(nodes, cell_centers, h, cnodes, ccell_centers, ch):
        n = len(cnodes)
        return np.zeros(n), np.ones(n), np.zeros(n)

    real_term = solver._terminate

    def terminate(var, l2_last, l2_stag, it):
        m = var.maxcycle
        return real_term(var, script(it)*var.l2_refe,
                         script(max(it - m, 0))*var.l2_refe, it)

    try:
        for nm in ('gauss_seidel', 'gauss_seidel_x', 'gauss_seidel_y',
                   'gauss_seidel_z'):
            patch(core, nm, mk_gs(nm) if leaves
                  else mk_gs_real(nm, getattr(core, nm)))
        patch(core, 'restrict', restrict)
        patch(solver, 'prolongation', prolongation)
        if leaves:
            patch(solver, 'residual', residual)
            patch(core, 'restrict_weights', restrict_weights)
        patch(solver, '_terminate', terminate)
        yield
    finally:
        for (mod, name), old in saved.items():
            setattr(mod, name, old)


def observe(shape, cfg, leaves=True, horizon=None):
    """Run the real solver with stubs; return observations."""
    import emg3d
    grid = emg3d.TensorMesh([np.ones(n) for n in shape], (0, 0, 0))
    if leaves:
        model = emg3d.Model(grid, 1.0)
    else:
        model = emg3d.Model(grid, 1.0, 2.0, 0.5)
    sfield = emg3d.Field(grid, frequency=1.0)
    # unit source on an interior edge
    sfield.fx[shape[0]//2, 1, 1] = 1.0
    rec = Rec()
    rec.limit = horizon
    kw = {k: cfg[k] for k in ('cycle', 'semicoarsening', 'linerelaxation',
                              'clevel', 'nu_init', 'nu_pre', 'nu_coarse',
                              'nu_post', 'maxit')}
    if cfg.get('plain'):
        kw['plain'] = True
    with stubs(SCRIPTS[cfg['script']], rec, leaves):
        _, info = emg3d.solve(model, sfield, sslsolver=False, verb=5, log=-1,
                              return_info=True, **kw)
    return rec, info


def parse_log(log):
    events, digits, header, fig = [], [], {}, []
    lines = log.split('\n')
    for k, ln in enumerate(lines):
        m = GS.match(ln)
        if m:
            it, lev, cm, nx, ny, nz, phase = m.groups()
            events.append((int(lev), (int(nx), int(ny), int(nz)),
                           phase.strip(), int(cm)))
            continue
        m = CY.search(ln)
        if m:
            digits.append((int(m.group(3)), int(m.group(4))))
            continue
        if 'Coarsest grid' in ln:
            header['shape'] = tuple(int(x) for x in re.findall(
                r"(\d+) x\s+(\d+) x\s+(\d+)", ln)[0])
        if re.match(r"^\s+h_$", ln) and not fig:
            j = k+1
            while j < len(lines) and QC.match(lines[j]):
                fig.append(lines[j].split('h_ ', 1)[1])
                j += 1
    return events, digits, header, fig


def moves_from_fig(fig):
    if not fig:
        return []
    width = max(len(r) for r in fig)
    mv = []
    for v in range(width):
        col = [(r, row[v]) for r, row in enumerate(fig)
               if v < len(row) and row[v] != ' ']
        if len(col) != 1:
            return None
        mv.append(col[0])
    return mv


def moves_from_levels(lv):
    mv = []
    for a, b in zip(lv[:-1], lv[1:]):
        if b == a + 1:
            mv.append((a, '\\'))
        elif b == a - 1:
            mv.append((b, '/'))
        else:
            mv.append((a, '?'))
    return mv


def compare(shape, cfg, leaves=True):
    viol = []
    cfg_obs = cfg             # what the real solver is called with
    if cfg.get('plain'):
        # documented: plain=True switches semicoarsening / linerelaxation off
        # if (and only if) they are True; explicit patterns stay
        cfg = dict(cfg)
        for k_ in ('semicoarsening', 'linerelaxation'):
            if cfg[k_] is True:
                cfg[k_] = False

    def V(cls, what, **kw):
        viol.append(dict(cls=cls, what=what, **kw))

    ref = mgcycle.run(tuple(shape), cfg['cycle'], cfg['semicoarsening'],
                      cfg['linerelaxation'], cfg['clevel'], cfg['nu_init'],
                      cfg['nu_pre'], cfg['nu_coarse'], cfg['nu_post'],
                      cfg['maxit'], 1e-6, SCRIPTS[cfg['script']])
    horizon = 10*(len(ref['kernels']) + len(ref['transfers'])) + 200
    try:
        rec, info = observe(shape, cfg_obs, leaves, horizon)
    except (Horizon, RecursionError) as e:
        V('recursion-does-not-terminate', f'{type(e).__name__}: {e}')
        return viol, ref, []
    events, digits, header, fig = parse_log(info['log'])
    # --- termination
    if info['it_mg'] != ref['it'] or info['exit_message'] != ref['message']:
        V('termination-differs',
          f"{info['it_mg']} cycles, {info['exit_message']!r}; reference "
          f"{ref['it']} cycles, {ref['message']!r}")
        return viol, ref, rec
    # --- sc / lr digits per cycle
    if digits != ref['digits']:
        V('sc-lr-digits-do-not-cycle-once-per-fine-cycle',
          f'(lr, sc) per cycle {digits[:8]} != reference '
          f"{ref['digits'][:8]}")
    # --- kernel dispatch (recorder)
    ker = [(r[1], r[2], r[3]) for r in rec if r[0] == 'K']
    if ker != ref['kernels']:
        k = next((i for i, (a, b) in enumerate(zip(ker, ref['kernels']))
                  if a != b), min(len(ker), len(ref['kernels'])))
        bad2 = any(nm != 'gauss_seidel' and
                   sh[('gauss_seidel_x', 'gauss_seidel_y',
                       'gauss_seidel_z').index(nm)] == 2
                   for nm, sh, _ in ker)
        V('line-relaxation-along-two-cell-direction' if bad2 else
          'smoother-call-sequence-differs',
          f'{len(ker)} kernel calls vs reference {len(ref["kernels"])}; '
          f'first difference at call {k}: '
          f'{ker[k] if k < len(ker) else None} vs '
          f'{ref["kernels"][k] if k < len(ref["kernels"]) else None}')
    # --- transfers (recorder): hierarchy
    tr = [r for r in rec if r[0] in 'RP']
    rtr = [(t[0], t[1], t[2], t[3]) for t in ref['transfers']]
    if [tuple(t) for t in tr] != rtr:
        k = next((i for i, (a, b) in enumerate(zip(tr, rtr)) if tuple(a) != b),
                 min(len(tr), len(rtr)))
        V('grid-hierarchy-or-visit-order-differs',
          f'{len(tr)} transfers vs reference {len(rtr)}; first difference '
          f'at {k}: {tr[k] if k < len(tr) else None} vs '
          f'{rtr[k] if k < len(rtr) else None}')
    for t in tr:
        if min(t[2]) < 2:
            V('level-with-fewer-than-two-cells', f'coarse shape {t[2]}')
        for a, b in zip(t[1], t[2]):
            if not (b == a or (a % 2 == 0 and a > 2 and 2*b == a)):
                V('direction-halved-illegally', f'{t[1]} -> {t[2]}')
    # --- log-derived events (level, shape, phase, cycmax)
    # (the cycmax column is emg3d's bookkeeping, not behaviour: not compared)
    ev = [e[:3] for e in events if e[2] not in ('initial error',
                                                'initial smoothing')]
    rev = [e[:3] for e in ref['events'] if len(e) == 4]
    if ev != rev:
        k = next((i for i, (a, b) in enumerate(zip(ev, rev)) if a != b),
                 min(len(ev), len(rev)))
        V('log-event-sequence-differs',
          f'{len(ev)} log events vs reference {len(rev)}; first difference '
          f'at {k}: {ev[k] if k < len(ev) else None} vs '
          f'{rev[k] if k < len(rev) else None} (level, shape, phase)')
    # --- QC figure of the first cycle
    mv = moves_from_fig(fig)
    rmv = moves_from_levels(ref['levels_first'])[:70]
    if mv is None or list(mv) != rmv:
        if not (not rmv and not mv):
            V('first-cycle-level-figure-differs',
              f'figure moves {mv[:12] if mv else mv} != reference {rmv[:12]}')
    # --- header coarsest grid (for the no-semicoarsening digit)
    scp = mgcycle.pattern(cfg['semicoarsening'], (1, 2, 3), 3)
    want = mgcycle.level_shapes(tuple(shape), 0, cfg['clevel'])[-1]
    # header shows per-direction halvings limited by the user's clevel
    hw = tuple(n // 2**min(mgcycle.halvings(n),
                           cfg['clevel'] if cfg['clevel'] >= 0 else 99)
               for n in shape)
    if header.get('shape') != hw:
        V('header-coarsest-grid', f"header {header.get('shape')} != {hw}")
    if 0 in scp and hw != want:
        V('header-coarsest-grid', f'header {hw} vs reference coarsest {want}')
    return viol, ref, rec


def case(c):
    shape = tuple(c['shape'])
    cfg = dict(DEFAULT)
    cfg.update(c.get('cfg', {}))
    viol, ref, rec = compare(shape, cfg, leaves=True)
    ncomp = 1
    if c.get('real'):
        # conformance of the stubbing: same run with real numerics
        v2, _, rec2 = compare(shape, cfg, leaves=False)
        for v in v2:
            v['cls'] = 'real-numerics:' + v['cls']
        viol += v2
        if rec2 != rec:
            viol.append({'cls': 'stubbed-trace-differs-from-real-trace',
                         'what': f'{len(rec)} vs {len(rec2)} recorded calls'})
        ncomp += 1
    nlev = 1 + max((e[0] for e in ref['events']), default=0)
    return {'viol': viol, 'compared': ncomp,
            'transitions': len(ref['kernels']) + len(ref['transfers']),
            'nontrivial': nlev > 1,
            'outcome': (nlev, ref['message'][:4], min(ref['it'], 6)),
            'count': {'levels_visited': nlev, 'cycles': ref['it']}}


# ------------------------------------------- multigrid as a preconditioner
def observe_prec(shape, cfg, ncalls, horizon=None):
    """The real solve() in preconditioner mode: the SciPy Krylov routine is a
    scripted stand-in that applies the preconditioner `ncalls` times (one
    callback after each) and returns 'converged'.  Numerical leaves are
    recorders; the fine-grid residual seen by _terminate decreases slowly, so
    that every preconditioner call runs its full number of cycles."""
    import emg3d
    from emg3d import solver
    grid = emg3d.TensorMesh([np.ones(n) for n in shape], (0, 0, 0))
    model = emg3d.Model(grid, 1.0)
    sfield = emg3d.Field(grid, frequency=1.0)
    sfield.fx[shape[0]//2, 1, 1] = 1.0
    rec = Rec()
    rec.limit = horizon
    calls = []

    def krylov_standin(A, b, x0, M=None, callback=None, **kw):
        x = np.array(x0)
        for _ in range(ncalls):
            rec.append(('CALL',))
            M.matvec(b)
            callback(x)
        return x, 0

    kw = {k: cfg[k] for k in ('cycle', 'semicoarsening', 'linerelaxation',
                              'clevel', 'nu_init', 'nu_pre', 'nu_coarse',
                              'nu_post')}
    la = solver.sp.sparse.linalg
    saved = {n: getattr(la, n) for n in ('bicgstab', 'cgs', 'gcrotmk')}
    try:
        for n in saved:
            setattr(la, n, krylov_standin)
        with stubs(SCRIPTS['slow'], rec, True):
            _, info = emg3d.solve(model, sfield, sslsolver=cfg['sslsolver'],
                                  verb=5, log=-1, return_info=True,
                                  maxit=50, **kw)
    finally:
        for n, f in saved.items():
            setattr(la, n, f)
    return rec, info


def case_prec(c):
    """Preconditioner mode: over `ncalls` preconditioner applications the
    k-th fine-grid cycle (counted over the whole solve) uses digit k of the
    cycling patterns, every call runs max(len(patterns)) cycles of the
    documented shape, and the hierarchy is well-formed."""
    shape = tuple(c['shape'])
    cfg = dict(DEFAULT)
    cfg.update(c.get('cfg', {}))
    ncalls = c['ncalls']
    scp = mgcycle.pattern(cfg['semicoarsening'], (1, 2, 3), 3)
    lrp = mgcycle.pattern(cfg['linerelaxation'], (4, 5, 6), 7)
    m = max(len(scp), len(lrp))
    rker, rtr = [], []
    g = 0
    per_call = []
    for _ in range(ncalls):
        k0, t0 = len(rker), len(rtr)
        if cfg['nu_init'] > 0:
            rker.extend(mgcycle.smoothing_calls(shape, lrp[g % len(lrp)],
                                                cfg['nu_init']))
        for _ in range(m):
            ev, ker, tr, lv = mgcycle.cycle(
                shape, cfg['cycle'], scp[g % len(scp)], lrp[g % len(lrp)],
                cfg['clevel'], cfg['nu_pre'], cfg['nu_coarse'],
                cfg['nu_post'])
            rker.extend(ker)
            rtr.extend([(t[0], t[1], t[2], t[3]) for t in tr])
            g += 1
        per_call.append((len(rker) - k0, len(rtr) - t0))
    viol = []

    def V(cls, what):
        viol.append({'cls': cls, 'what': f'preconditioner mode, {ncalls} '
                     f'calls: ' + what})
    try:
        rec, info = observe_prec(shape, cfg, ncalls,
                                 10*(len(rker) + len(rtr)) + 200)
    except (Horizon, RecursionError) as e:
        V('recursion-does-not-terminate', f'{type(e).__name__}: {e}')
        return {'viol': viol, 'compared': 1, 'nontrivial': True}
    ncall = sum(1 for r in rec if r[0] == 'CALL')
    ker = [(r[1], r[2], r[3]) for r in rec if r[0] == 'K']
    tr = [tuple(r) for r in rec if r[0] in 'RP']
    if info['it_mg'] != ncalls*m or ncall != ncalls:
        V('preconditioner-cycle-count-differs',
          f"{info['it_mg']} fine-grid cycles in {ncall} calls; reference "
          f'{ncalls*m} ({m} per call)')
    if ker != rker:
        k = next((i for i, (a, b) in enumerate(zip(ker, rker)) if a != b),
                 min(len(ker), len(rker)))
        V('smoother-call-sequence-differs',
          f'{len(ker)} kernel calls vs reference {len(rker)}; first '
          f'difference at call {k}: {ker[k] if k < len(ker) else None} vs '
          f'{rker[k] if k < len(rker) else None}')
    if tr != rtr:
        k = next((i for i, (a, b) in enumerate(zip(tr, rtr)) if a != b),
                 min(len(tr), len(rtr)))
        V('grid-hierarchy-or-visit-order-differs',
          f'{len(tr)} transfers vs reference {len(rtr)}; first difference '
          f'at {k}: {tr[k] if k < len(tr) else None} vs '
          f'{rtr[k] if k < len(rtr) else None}')
    for t in tr:
        if min(t[2]) < 2:
            V('level-with-fewer-than-two-cells', f'coarse shape {t[2]}')
    if info['exit'] != 0:
        V('termination-differs', f"exit {info['exit']} "
          f"{info['exit_message']!r} although the Krylov routine reported "
          'convergence')
    return {'viol': viol, 'compared': 2 + len(tr),
            'transitions': len(rker) + len(rtr), 'nontrivial': g > 1,
            'outcome': (m, len(set(tr)), min(len(rker), 50)),
            'count': {'preconditioner_calls': ncalls, 'cycles': g}}


def prepare(ctx):
    impl.warm()


def single_deviations():
    out = [{}]
    for k, vals in DEVIATIONS.items():
        for v in vals:
            out.append({k: v})
    return out


def pair_deviations():
    out = []
    keys = list(DEVIATIONS)
    for a, b in itertools.combinations(keys, 2):
        for va in DEVIATIONS[a]:
            for vb in DEVIATIONS[b]:
                out.append({a: va, b: vb})
    return out


def run(ctx):
    prepare(ctx)
    q = ctx.quick
    ctx.assume(
        "numerical leaves (smoother kernels, restrict kernel, prolongation, "
        "residual) are replaced by recorders; the fine-grid residual norm "
        "seen by the real _terminate is a scripted environment answer",
        "conformance of the stubbing is shown on small shapes by repeating "
        "the runs with real numerics (same scripted termination)",
        "reference: mc/refmodel/mgcycle.py (textbook recursion V->[V], "
        "W->[W,W], F->[F,V])")
    cap = ctx.budget
    if ctx.wants('single'):
        rng_ = range(2, 10)
        cs = [{'shape': s, 'cfg': d}
              for d in single_deviations()
              for s in itertools.product(rng_, repeat=3)]
        ctx.explore('all-shapes-2..9-single-deviation', FN, cs, engine='E1+E4',
                    rule='all 512 shapes in {2..9}^3 x (default + every '
                         'single deviation of cycle, semicoarsening, '
                         'linerelaxation, clevel, nu_*, maxit, residual '
                         'script); non-trivial = more than one level',
                    time_cap=cap or (600 if q else 1800), chunksize=64)
    if ctx.wants('preconditioner'):
        shp = list(itertools.product((2, 3, 4, 6, 8) if q else range(2, 10),
                                     repeat=3))
        shp += [(8, 2, 2), (2, 16, 4), (12, 16, 8), (16, 12, 8), (5, 8, 8)]
        cs = []
        for ss in (('bicgstab',) if q else ('bicgstab', 'cgs', 'gcrotmk')):
            for cy in ('F', 'V', 'W'):
                for sc in (False, True, 12, 1213, 2):
                    for lr in (False, True, 147, 3):
                        for extra in ({}, {'nu_init': 1}, {'clevel': 1}):
                            if extra and (q or sc is not True):
                                continue
                            for sh in shp:
                                cs.append({'shape': sh, 'ncalls': 4, 'cfg': {
                                    'sslsolver': ss, 'cycle': cy,
                                    'semicoarsening': sc,
                                    'linerelaxation': lr, **extra}})
        ctx.explore('preconditioner', FN_PREC, cs, engine='E1+E4',
                    rule='multigrid as preconditioner: scripted Krylov '
                         'routine applying the preconditioner 4 times; shapes '
                         'x cycle x 5 semicoarsening x 4 line-relaxation '
                         'patterns (x sslsolver name, nu_init, clevel in '
                         'thorough); kernel and transfer sequences of ALL '
                         'calls vs the reference with digits advancing once '
                         'per fine-grid cycle across calls',
                    time_cap=cap or (400 if q else 1800), chunksize=64)
    if ctx.wants('plain'):
        shp = [(8, 8, 8), (16, 8, 32), (6, 4, 8), (8, 2, 2), (5, 8, 8)]
        cs = [{'shape': sh, 'cfg': {'plain': True, 'cycle': cy,
                                    'semicoarsening': sc,
                                    'linerelaxation': lr, **ex}}
              for cy in ('F', 'V', 'W')
              for sc in (True, False, 1, 2, 3, 12)
              for lr in (True, False, 1, 4, 7, 147)
              for ex in ({}, {'clevel': 1})
              for sh in shp]
        ctx.explore('plain-shortcut', FN, cs, engine='E1+E4',
                    rule='plain=True x cycle x 6 semicoarsening x 6 line-'
                         'relaxation settings (True = left at its default, '
                         'patterns explicit) x shapes: True is switched off, '
                         'explicit patterns stay',
                    time_cap=cap or (360 if q else 1200), chunksize=16)
    if ctx.wants('pairs'):
        shp = [(2, 2, 2), (3, 3, 3), (4, 4, 4), (5, 5, 5), (6, 6, 6),
               (8, 8, 8), (12, 12, 12), (16, 16, 16), (8, 2, 2), (2, 16, 4),
               (6, 4, 8), (16, 8, 2)]
        pd = pair_deviations()
        if q:
            shp = shp[2:6:3] + shp[8:10]   # (4,4,4),(8,8,8),(8,2,2),(2,16,4)
        cs = [{'shape': s, 'cfg': d} for d in pd for s in shp]
        ctx.explore('pairs-of-deviations', FN, cs, engine='E1+E4',
                    rule='all pairs of deviations on representative shapes',
                    time_cap=cap or (360 if q else 2400), chunksize=64)
    if ctx.wants('real'):
        rng_ = range(2, 5) if q else range(2, 7)
        devs = [{}, {'cycle': 'V'}, {'cycle': 'W'}, {'semicoarsening': True},
                {'linerelaxation': True}, {'semicoarsening': 1213,
                                           'linerelaxation': 147},
                {'script': 'conv5'}, {'nu_pre': 0}, {'clevel': 1}]
        cs = [{'shape': s, 'cfg': d, 'real': True}
              for d in devs for s in itertools.product(rng_, repeat=3)]
        cs += [{'shape': s, 'cfg': d, 'real': True} for d in devs
               for s in ((8, 8, 8), (16, 4, 8), (12, 6, 2))]
        ctx.explore('real-numerics-conformance', FN, cs, engine='E1',
                    rule='same configurations with the real kernels: traces '
                         'must equal the stubbed ones and the reference',
                    time_cap=cap or (360 if q else 1800))
    if not q and ctx.wants('big'):
        cs = [{'shape': s, 'cfg': {'cycle': cy}}
              for cy in ('F', 'V', 'W')
              for s in itertools.product(range(2, 41), repeat=3)]
        ctx.explore('all-shapes-2..40', FN, cs, engine='E1',
                    rule='all 59319 shapes with 2<=n<=40 per cycle type',
                    time_cap=cap or 2400, chunksize=256)
        cs = []
        for n in range(2, 1025):
            for perm in ((n, 4, 6), (4, n, 6), (6, 4, n)):
                for d in ({}, {'semicoarsening': True},
                          {'linerelaxation': True}, {'cycle': 'W'}):
                    cs.append({'shape': perm, 'cfg': d})
        ctx.explore('one-direction-up-to-1024', FN, cs, engine='E1',
                    rule='(n,4,6),(4,n,6),(6,4,n) for all n<=1024',
                    time_cap=cap or 1200, chunksize=64)
