"""C18 - the command-line interface == the Python API for every documented
option.

Engine E1: deviation-bounded lattice over the documented keys of
``docs/manual/cli.rst`` (sections files, simulation, solver_opts,
gridding_opts, noise_opts, data, layered) and the command-line flags.  Every
case runs the real CLI **in-process** (``emg3d.cli.main.main(argv)``) on
survey / model files written by the check, and, independently, the
"equivalent API call" built by the check's own typed reading of the documented
value syntax (``interpret`` / ``api_step`` below; identity map on option
names).  Oracles:

(a) every documented option is accepted (parser + Simulation constructor);
(b) data / misfit / gradient / n_observations in the output file equal the
    API results (same process, same kernels -> bit-identical expected;
    tolerance 1e-12 relative); the random generator used by
    ``emg3d.surveys.random_noise`` is seeded identically in both runs;
    in ``--dry-run --save`` mode the saved Simulation equals the API-built
    one attribute by attribute (all options that do not change numbers are
    observed there: name, max_workers, solver_opts, gridding_opts, grids ...);
(c) command-line arguments override the configuration file;
(d) unknown keys in every section / unknown flags are rejected with an error;
(e) load / save / cache / clean sequences of CLI calls equal the same sequence
    of API calls.
"""
import concurrent.futures
import contextlib
import io
import itertools
import logging
import os
import re
import shutil
import sys
import tempfile
import warnings

import numpy as np

FN = 'mc.checks.c18_cli:case'
FMTS = ('h5', 'npz', 'json')
FUNCS = ('forward', 'misfit', 'gradient')
SECTIONS = ('files', 'simulation', 'solver_opts', 'gridding_opts',
            'noise_opts', 'data', 'layered')
NOISE_SEED = 20240918

# --------------------------------------------------------------------------
# Documented keys (docs/manual/cli.rst) with their documented type and the
# value alphabet of this check, written in the documented syntax.  `mode`:
# 'real' = real runs (x function x format) + attribute comparison,
# 'dry' = attribute / grid comparison in --dry-run --save mode only.
# {tmp} is replaced by the run directory, {fmt} by the file format.
# --------------------------------------------------------------------------
DOC = {
    'files': {
        'path': ('str', ['{tmp}/sub', 'sub']),
        'survey': ('str', ['survey2.{fmt}', 'survey2']),
        'model': ('str', ['model2.{fmt}', 'model2']),
        'output': ('str', ['res.{fmt}', 'res', 'res.{ofmt}']),
        'save': ('str', ['mysim.{fmt}', 'mysim']),
        'load': ('str', ['presim.{fmt}']),
        'cache': ('str', ['presim.{fmt}']),
    },
    'simulation': {
        'max_workers': ('int', ['1', '2']),
        'gridding': ('str', ['same', 'single', 'frequency', 'source',
                             'both']),
        'name': ('str', ['MyTestSimulation', 'two words']),
        'file_dir': ('str', ['{tmp}/fdir']),
        'receiver_interpolation': ('str', ['cubic', 'linear']),
        'layered': ('bool', ['True', 'False']),
    },
    'solver_opts': {
        'sslsolver': ('bool', ['True', 'False']),
        'semicoarsening': ('bool', ['True', 'False']),
        'linerelaxation': ('bool', ['True', 'False']),
        'cycle': ('str', ['V', 'W', 'F']),
        'tol': ('float', ['1e-3', '0.5e-7']),
        'tol_gradient': ('float', ['1e-2', '2.5e-4']),
        'verb': ('int', ['0', '2']),
        'maxit': ('int', ['2', '3']),
        'nu_init': ('int', ['1', '2']),
        'nu_pre': ('int', ['1', '3']),
        'nu_coarse': ('int', ['1', '2']),
        'nu_post': ('int', ['1', '3']),
        'clevel': ('int', ['0', '1']),
        'plain': ('bool', ['True', 'False']),
    },
    'gridding_opts': {
        'properties': ('list', ['0.3, 1, 1e5', '2.5',
                                '1, 2, 2, 3, 3, 4, 0.001']),
        'center': ('list', ['0, 0, 0', '10.5, -20, -250']),
        'cell_number': ('list', ['8, 16, 32, 64, 128', '16, 32']),
        'min_width_pps': ('list', ['5, 3, 3', '2, 2, 4']),
        'domain': ('lol', ['-10000, 10000; None; None',
                           '-300, 300; -250.5, 250; -400, -100']),
        'distance': ('lol', ['None; None; -10000, 10000',
                             '300, 400; None; None']),
        'stretching': ('lol', ['None; None; 1.05, 1.5', '1.1, 1.4']),
        'min_width_limits': ('lol', ['10, 100; None; 50', '100, 200']),
        'mapping': ('str', ['Resistivity', 'LgConductivity']),
        'vector': ('str', ['xy', 'z', 'xyz']),
        'frequency': ('float', ['1.0', '2.5']),
        'seasurface': ('float', ['0.0', '-50.5']),
        'max_buffer': ('float', ['100000.0', '700.5']),
        'lambda_factor': ('float', ['1.0', '0.5']),
        'verb': ('int', ['0', '-1']),
        'lambda_from_center': ('bool', ['False', 'True']),
    },
    'noise_opts': {
        'add_noise': ('bool', ['True', 'False']),
        'min_offset': ('float', ['0.0', '330.5']),
        'max_offset': ('float', ['420.5', '1e4', 'inf']),
        'mean_noise': ('float', ['0.0', '0.5']),
        'ntype': ('str', ['white_noise', 'gaussian_correlated',
                          'gaussian_uncorrelated']),
    },
    'data': {
        'sources': ('strlist', ['TxED-2', 'TxED-2, TxED-1']),
        'receivers': ('strlist', ['RxEP-1', 'RxEP-2, RxMP-3']),
        'frequencies': ('strlist', ['f-2', 'f-1, f-2']),
        'remove_empty': ('bool', ['False', 'True']),
    },
    'layered': {
        'method': ('str', ['cylinder', 'prism', 'midpoint', 'source',
                           'receiver']),
        'radius': ('float', ['150.5', '1e3']),
        'factor': ('float', ['1.0', '1.5']),
        'minor': ('float', ['0.5', '1.0']),
        'merge': ('bool', ['True', 'False']),
        'check_foci': ('bool', ['True', 'False']),
    },
}
# [layered] keys that live in layered_opts['ellipse'] of the API
ELLIPSE = ('radius', 'factor', 'minor', 'check_foci')
# values run in 'dry' (attribute) mode only (automatic gridding on the full
# default domain is too big for a real run in the budget)
DRY_ONLY = {('simulation', 'gridding'): {'single', 'frequency', 'source',
                                         'both'}}
# gridding_opts keys x value index that are additionally run for real
GRID_REAL = {'properties': 1, 'center': 1, 'min_width_pps': 1, 'domain': 1,
             'stretching': 1, 'min_width_limits': 1, 'vector': 2,
             'frequency': 1, 'seasurface': 1, 'max_buffer': 1,
             'lambda_factor': 1, 'lambda_from_center': 1, 'mapping': 0,
             'cell_number': 1, 'distance': 1, 'verb': 1}
# small-grid companion options of real gridding runs (documented syntax)
GRID_SMALL = [('gridding_opts', 'min_width_limits', '150, 200'),
              ('gridding_opts', 'stretching', '1.4, 1.8'),
              ('gridding_opts', 'max_buffer', '600.0'),
              ('data', 'sources', 'TxED-2'), ('data', 'frequencies', 'f-2')]

# Verbatim example values of cli.rst that are not in the alphabets above.
# ('file_dir = None' and 'max_offset = np.inf' are NOT included: these lines
# of cli.rst show the Python defaults of the API next to the commented-out
# key, they are not values in the configuration-file syntax; demanding that
# the strings 'None' / 'np.inf' be accepted would demand more than the
# property states.  'max_offset = inf' is in the alphabet above.)
EXAMPLES = [('simulation', 'max_workers', '4')]

# command-line flags: (label, argv tokens, overlapping config key or None)
FLAGS = [
    ('nproc', ['-n', '1'], None), ('nproc', ['--nproc', '2'], None),
    ('path', ['--path', '{tmp}/sub'], None),
    ('survey', ['--survey', 'survey2.{fmt}'], None),
    ('model', ['--model', 'model2.{fmt}'], None),
    ('output', ['--output', 'res.{fmt}'], None),
    ('save', ['--save', 'mysim.{fmt}'], None),
    ('load', ['--load', 'presim.{fmt}'], None),
    ('cache', ['--cache', 'presim.{fmt}'], None),
    ('load+clean', ['--load', 'presim.{fmt}', '--clean'], None),
    ('cache+clean+model', ['--cache', 'presim.{fmt}', '--clean', '--model',
                           'model2.{fmt}'], None),
    ('layered', ['-l'], None), ('layered', ['--layered'], None),
    ('dry-run', ['-d'], None), ('dry-run', ['--dry-run'], None),
    ('verbosity', ['--verbosity', '-1'], None),
    ('verbosity', ['--verbosity', '2'], None),
    ('verbosity', ['-v'], None), ('verbosity', ['-vv'], None),
    ('verbosity', ['-q'], None),
]
# option available both ways: flag tokens, config entry with ANOTHER value
OVERLAP = [
    ('nproc', ['-n', '1'], ('simulation', 'max_workers', '2')),
    ('nproc', ['--nproc', '2'], ('simulation', 'max_workers', '1')),
    ('path', ['--path', '{tmp}'], ('files', 'path', '{tmp}/sub')),
    ('path', ['--path', '{tmp}/sub'], ('files', 'path', '{tmp}')),
    ('survey', ['--survey', 'survey.{fmt}'],
     ('files', 'survey', 'survey2.{fmt}')),
    ('survey', ['--survey', 'survey2.{fmt}'],
     ('files', 'survey', 'survey.{fmt}')),
    ('model', ['--model', 'model2.{fmt}'], ('files', 'model', 'model.{fmt}')),
    ('model', ['--model', 'model.{fmt}'], ('files', 'model', 'model2.{fmt}')),
    ('output', ['--output', 'res.{fmt}'], ('files', 'output', 'out.{fmt}')),
    ('output', ['--output', 'res'], ('files', 'output', 'other.{fmt}')),
    ('save', ['--save', 'mysim.{fmt}'], ('files', 'save', 'cfgsim.{fmt}')),
    ('load', ['--load', 'presim.{fmt}'], ('files', 'load', 'presim2.{fmt}')),
    ('load', ['--load', 'presim2.{fmt}'], ('files', 'load', 'presim.{fmt}')),
    ('cache', ['--cache', 'presim.{fmt}'],
     ('files', 'cache', 'presim2.{fmt}')),
    ('cache-over-load-save', ['--cache', 'presim.{fmt}'],
     ('files', 'load', 'presim2.{fmt}')),
    ('layered', ['-l'], ('simulation', 'layered', 'False')),
    ('layered', ['--layered'], ('simulation', 'layered', 'False')),
]


# ==========================================================================
# the check's own typed reading of the documented value syntax
# ==========================================================================
def rd_bool(s):
    t = s.strip().lower()
    if t in ('true', 'yes', 'on', '1'):
        return True
    if t in ('false', 'no', 'off', '0'):
        return False
    raise ValueError(f"not a bool: {s!r}")


def rd_list(s):
    return [float(v) for v in s.split(',')]


def rd_lol(s):
    """list of lists: lists ';'-separated, values ','-separated, None."""
    out = []
    for part in s.split(';'):
        if part.strip().lower() == 'none':
            out.append(None)
        else:
            out.append(rd_list(part))
    return out[0] if len(out) == 1 else out


def rd_float(s):
    t = s.strip()
    return float('inf') if t in ('np.inf', 'inf') else float(t)


def rd_str(s):
    t = s.strip()
    return None if t == 'None' else t


READ = {'bool': rd_bool, 'int': lambda s: int(s.strip()),
        'float': rd_float, 'str': rd_str,
        'list': rd_list, 'lol': rd_lol,
        'strlist': lambda s: [v.strip() for v in s.split(',')]}


def typed(section, key, value):
    return READ[DOC[section][key][0]](value)


def with_suffix(path):
    """'If the files are provided without ending the suffix .h5 will be
    appended.'"""
    if os.path.splitext(path)[1] in ('.h5', '.npz', '.json'):
        return path
    return os.path.splitext(path)[0] + '.h5' if \
        os.path.splitext(path)[1] else path + '.h5'


def interpret(cfg, flags, cwd):
    """Configuration entries + command-line tokens -> plan of API calls.

    cfg: list of (section, key, value-string); flags: list of tokens.
    Command-line arguments override the configuration file."""
    conf = {}
    for sec, key, val in cfg:
        conf.setdefault(sec, {})[key] = typed(sec, key, val)
    fl = {'verbosity': 0}
    fn = None
    it = iter(flags)
    for tok in it:
        if tok in ('-n', '--nproc'):
            fl['nproc'] = int(next(it))
        elif tok in ('-f', '--forward', '-m', '--misfit', '-g', '--gradient'):
            fn = {'f': 'forward', 'm': 'misfit',
                  'g': 'gradient'}[tok.lstrip('-')[0]]
        elif tok in ('--path', '--survey', '--model', '--output', '--save',
                     '--load', '--cache'):
            fl[tok[2:]] = next(it)
        elif tok == '--clean':
            fl['clean'] = True
        elif tok in ('-l', '--layered'):
            fl['layered'] = True
        elif tok in ('-d', '--dry-run'):
            fl['dry'] = True
        elif tok == '--verbosity':
            fl['verbosity'] = int(next(it))
        elif re.fullmatch('-v+', tok):
            fl['verbosity'] = len(tok) - 1
        elif tok == '-q':
            fl['verbosity'] = -1
        else:
            raise ValueError(f"checker: flag {tok} not in its table")
    files = dict(conf.get('files', {}))
    for k in ('path', 'survey', 'model', 'output', 'save', 'load', 'cache'):
        if k in fl:
            files[k] = fl[k]
    path = os.path.abspath(os.path.join(cwd, files.get('path', '.')))
    names = {'survey': 'survey', 'model': 'model', 'output': 'emg3d_out'}
    out = {}
    for k in ('survey', 'model', 'output', 'save', 'load', 'cache'):
        name = files.get(k, names.get(k))
        out[k] = with_suffix(os.path.join(path, name)) if name else None
    if out['cache']:         # shortcut for load and save (overrules them)
        out['load'] = out['save'] = out['cache']
    out['log'] = os.path.splitext(out['output'])[0] + '.log'
    sim = dict(conf.get('simulation', {}))
    if 'nproc' in fl:
        sim['max_workers'] = fl['nproc']
    if 'layered' in fl:
        sim['layered'] = True
    for sec in ('solver_opts', 'gridding_opts'):
        if conf.get(sec):
            sim[sec] = dict(conf[sec])
    # The one documented CLI key whose API argument is spelled differently:
    # [gridding_opts] cell_number  <->  gridding_opts['cell_numbers'].
    if 'cell_number' in sim.get('gridding_opts', {}):
        sim['gridding_opts']['cell_numbers'] = sim['gridding_opts'].pop(
            'cell_number')
    if conf.get('layered'):
        lo = {k: v for k, v in conf['layered'].items() if k not in ELLIPSE}
        ell = {k: v for k, v in conf['layered'].items() if k in ELLIPSE}
        if ell:
            lo['ellipse'] = ell
        sim['layered_opts'] = lo
    fn = fn or 'forward'
    if fn == 'gradient' and 'receiver_interpolation' not in sim:
        sim['receiver_interpolation'] = 'linear'   # documented remark
    sim.setdefault('name', 'emg3d CLI run')
    if fl['verbosity'] < 1:
        sim['tqdm_opts'] = False    # 'switch off tqdm if verbosity is zero'
    return {'files': out, 'fn': fn, 'sim': sim, 'data': conf.get('data', {}),
            'noise': conf.get('noise_opts', {}), 'dry': fl.get('dry', False),
            'clean': fl.get('clean', False)}


class Stage(Exception):
    """An exception of the reference API sequence, with the stage it
    occurred in ('accept' = reading options / building the Simulation)."""

    def __init__(self, stage, exc):
        super().__init__(f"{stage}: {type(exc).__name__}: {exc}")
        self.stage, self.exc = stage, exc


def api_step(plan):
    """Execute the plan through the Python API; returns the result dict."""
    import emg3d
    f = plan['files']
    stage = 'accept'
    try:
        if f['load']:
            sim = emg3d.Simulation.from_file(f['load'], verb=0)
            if plan['clean']:
                sim.clean('computed')
                sim.model = emg3d.load(f['model'], verb=0)['model']
            want = plan['sim'].get('layered', False)
            if sim.layered != want:
                sim.layered = want
        else:
            survey = emg3d.load(f['survey'], verb=0)['survey']
            model = emg3d.load(f['model'], verb=0)['model']
            if plan['data']:
                d = plan['data']
                survey = survey.select(
                    sources=d.get('sources'), receivers=d.get('receivers'),
                    frequencies=d.get('frequencies'),
                    remove_empty=d.get('remove_empty', False))
            sim = emg3d.Simulation(survey=survey, model=model, verb=-1,
                                   **plan['sim'])
        stage = 'compute'
        res = {}
        fn = plan['fn']
        if plan['dry']:
            # a dry run still builds the computational grids (the CLI prints
            # them): option VALUES that admit no grid fail here, as they
            # would in a real run
            if not sim.layered:
                for s_, f_ in sim._srcfreq:
                    sim.get_grid(s_, f_)
            res['data'] = np.zeros(sim.survey.shape, dtype=complex)
        elif fn == 'forward':
            sim.compute(observed=True, **plan['noise'])
            res['data'] = sim.data.observed.data.copy()
        else:
            sim.compute()
            res['data'] = sim.data.synthetic.data.copy()
        if fn in ('misfit', 'gradient'):
            res['misfit'] = np.asarray(0.0 if plan['dry'] else sim.misfit)
            res['n_observations'] = int(sim.survey.count)
        if fn == 'gradient':
            if plan['dry']:
                n = {'isotropic': (), 'HTI': (2,), 'VTI': (2,),
                     'triaxial': (3,)}[sim.model.case]
                res['gradient'] = np.zeros(n + tuple(sim.model.shape))
            else:
                res['gradient'] = np.array(sim.gradient)
        stage = 'save'
        if f['save']:
            sim.to_file(f['save'], verb=0)
        res['_sim'] = sim
        return res
    except Exception as e:            # noqa
        raise Stage(stage, e)


# ==========================================================================
# files written by the check
# ==========================================================================
def build_inputs(d, fmt, need):
    """Survey/model files (+ alternates, + pre-saved simulations) in d."""
    import emg3d
    from .. import zoo
    hx = np.ones(8)*100.
    hy = np.ones(8)*120.
    hz = np.array([200, 150, 100, 100, 100, 100, 150, 200.])
    grid = emg3d.TensorMesh([hx, hy, hz], origin=(-400, -480, -800))
    r = zoo.rng('c18', 'model')
    cond = 10**r.uniform(-1, 0.5, tuple(grid.shape_cells))
    model = emg3d.Model(grid, property_x=cond, mapping='Conductivity')
    model2 = emg3d.Model(grid, property_x=cond[::-1, :, :]*1.3,
                         property_z=cond[::-1, :, :]*0.9,
                         mapping='Conductivity')
    src = [emg3d.TxElectricDipole((-150, 30, -250, 20, 10)),
           emg3d.TxElectricDipole((100, -60, -250, -40, 0), strength=2.0)]
    rec = [emg3d.RxElectricPoint((150, 100, -300, 0, 0)),
           emg3d.RxElectricPoint((-200, 200, -300, 90, 0)),
           emg3d.RxMagneticPoint((0, -200, -300, 30, 10))]

    def mk(freqs, scale):
        s = emg3d.Survey(src, rec, freqs, noise_floor=1e-13,
                         relative_error=0.05, name='c18')
        n = r.standard_normal(s.shape) + 1j*r.standard_normal(s.shape)
        n *= scale
        n[:, 2, :] = np.nan          # receiver 3: no observed data at all
        n[0, 0, 1] = np.nan          # an isolated gap
        s.data['observed'][...] = n
        return s
    survey = mk([1.0, 3.0], 1e-11)
    survey2 = mk([2.0, 0.7], 3e-12)
    os.makedirs(os.path.join(d, 'sub'), exist_ok=True)
    fmts = {fmt, 'h5'}
    for ff in fmts:
        survey.to_file(os.path.join(d, f'survey.{ff}'), verb=0)
        emg3d.save(os.path.join(d, f'model.{ff}'), model=model, verb=0)
        survey2.to_file(os.path.join(d, f'survey2.{ff}'), verb=0)
        emg3d.save(os.path.join(d, f'model2.{ff}'), model=model2, verb=0)
        # 'sub' holds files of the SAME names but other content
        survey2.to_file(os.path.join(d, 'sub', f'survey.{ff}'), verb=0)
        emg3d.save(os.path.join(d, 'sub', f'model.{ff}'), model=model2,
                   verb=0)
        survey.to_file(os.path.join(d, 'sub', f'survey2.{ff}'), verb=0)
        emg3d.save(os.path.join(d, 'sub', f'model2.{ff}'), model=model,
                   verb=0)
    if 'presim' in need:
        # pre-saved simulations (computed, 3-D) to be loaded by the CLI
        for name, sv, md in (('presim', survey, model),
                             ('presim2', survey2, model2)):
            s = emg3d.Simulation(sv.copy(), md, gridding='same', verb=-1,
                                 max_workers=1, tqdm_opts=False,
                                 receiver_interpolation='linear',
                                 name='pre-saved', solver_opts={'maxit': 4})
            s.compute()
            s.to_file(os.path.join(d, f'{name}.{fmt}'), verb=0)
            shutil.copy(os.path.join(d, f'{name}.{fmt}'),
                        os.path.join(d, 'sub', f'{name}.{fmt}'))


# ==========================================================================
# running the real CLI in-process
# ==========================================================================
@contextlib.contextmanager
def seeded_noise():
    """Seam: numpy.random.default_rng as seen by emg3d.surveys."""
    real = np.random.default_rng
    np.random.default_rng = lambda *a, **k: real(NOISE_SEED)
    try:
        yield
    finally:
        np.random.default_rng = real


class _SerialPool(concurrent.futures.Executor):
    """Seam: in-process stand-in for ProcessPoolExecutor (a real pool
    cannot be forked from inside the check's own pool workers; process
    scheduling is the subject of C11).  Records the requested size."""
    sizes = []

    def __init__(self, max_workers=None, **kwargs):
        _SerialPool.sizes.append(max_workers)
        init = kwargs.get('initializer')
        if init:
            init(*kwargs.get('initargs', ()))

    def submit(self, fn, *args, **kwargs):
        f = concurrent.futures.Future()
        try:
            f.set_result(fn(*args, **kwargs))
        except BaseException as e:      # noqa
            f.set_exception(e)
        return f

    def shutdown(self, wait=True, **kwargs):
        pass


@contextlib.contextmanager
def serial_pool():
    """-> list of the pool sizes requested while active."""
    import concurrent.futures.process as cfp
    import emg3d._multiprocessing as emp
    saved = (concurrent.futures.ProcessPoolExecutor, cfp.ProcessPoolExecutor,
             emp.ProcessPoolExecutor)
    _SerialPool.sizes = sizes = []
    concurrent.futures.ProcessPoolExecutor = _SerialPool
    cfp.ProcessPoolExecutor = _SerialPool
    emp.ProcessPoolExecutor = _SerialPool
    try:
        yield sizes
    finally:
        (concurrent.futures.ProcessPoolExecutor, cfp.ProcessPoolExecutor,
         emp.ProcessPoolExecutor) = saved


def run_cli(argv, cwd):
    """-> (status, exception-or-exit-code, stdout+stderr text, pool sizes)."""
    import importlib
    cmain = importlib.import_module('emg3d.cli.main')
    out = io.StringIO()
    old_argv, old_cwd = sys.argv, os.getcwd()
    sys.argv = ['emg3d'] + list(argv)     # main() inspects len(sys.argv)
    status, what, pools = 'ok', None, []
    try:
        os.chdir(cwd)
        with contextlib.redirect_stdout(out), \
                contextlib.redirect_stderr(out), \
                warnings.catch_warnings(), seeded_noise(), \
                np.errstate(all='ignore'), serial_pool() as pools:
            warnings.simplefilter('ignore')
            try:
                cmain.main(list(argv))
            except SystemExit as e:
                if e.code not in (None, 0):
                    status, what = 'exit', e.code
            except Exception as e:     # noqa
                status, what = 'raise', e
    finally:
        os.chdir(old_cwd)
        sys.argv = old_argv
        logging.captureWarnings(False)
        for name in ('emg3d.cli.run', 'py.warnings'):
            lg = logging.getLogger(name)
            for h in lg.handlers[:]:
                lg.removeHandler(h)
                h.close()
    return status, what, out.getvalue(), list(pools)


def run_api(plan, cwd):
    old_cwd = os.getcwd()
    try:
        os.chdir(cwd)
        with warnings.catch_warnings(), seeded_noise(), \
                np.errstate(all='ignore'), serial_pool() as pools, \
                contextlib.redirect_stdout(io.StringIO()), \
                contextlib.redirect_stderr(io.StringIO()):
            warnings.simplefilter('ignore')
            try:
                res = api_step(plan)
            finally:
                plan['_pools'] = list(pools)
            return res
    finally:
        os.chdir(old_cwd)


def subst(s, tmp, fmt):
    ofmt = FMTS[(FMTS.index(fmt) + 1) % 3]
    return s.replace('{tmp}', tmp).replace('{fmt}', fmt).replace(
        '{ofmt}', ofmt)


def write_cfg(path, cfg):
    with open(path, 'w') as f:
        for sec in SECTIONS + tuple(sorted({c[0] for c in cfg}
                                           - set(SECTIONS))):
            ent = [(k, v) for s, k, v in cfg if s == sec]
            if ent:
                f.write(f"[{sec}]\n")
                for k, v in ent:
                    f.write(f"{k} = {v}\n")


# ==========================================================================
# comparison helpers
# ==========================================================================
def same(a, b, rtol=1e-12):
    """NaN pattern identical, finite values equal to rtol (of max |b|)."""
    a, b = np.asarray(a), np.asarray(b)
    if a.shape != b.shape:
        return False, f"shape {a.shape} vs {b.shape}"
    if a.dtype.kind in 'OUS' or b.dtype.kind in 'OUS':
        return bool(np.all(a == b)), 'objects differ'
    na, nb = np.isnan(a), np.isnan(b)
    if not np.array_equal(na, nb):
        return False, f"NaN pattern differs ({na.sum()} vs {nb.sum()} NaN)"
    if na.all():
        return True, ''
    scale = np.abs(b[~nb]).max()
    err = np.abs(a[~na] - b[~nb]).max()
    if err <= rtol*scale:
        return True, ''
    return False, f"max |diff| {err:.3e} (scale {scale:.3e})"


def canon(x):
    """Canonical, comparable form of a (de)serialised structure."""
    if isinstance(x, dict):
        return {str(k): canon(v) for k, v in sorted(x.items(),
                                                    key=lambda kv: str(kv[0]))}
    if isinstance(x, np.ndarray):
        if x.dtype.kind == 'c':
            return ['c', canon(x.real), canon(x.imag)]
        if x.ndim == 0:
            return canon(x.item())
        if x.dtype.kind == 'f':
            return ['a', list(x.shape)] + [
                None if np.isnan(v) else float(v) for v in x.ravel()]
        return ['a', list(x.shape)] + [canon(v) for v in x.ravel().tolist()]
    if isinstance(x, (list, tuple)):
        if len(x) and all(isinstance(v, (int, float, np.number))
                          and not isinstance(v, bool) for v in x):
            return canon(np.asarray(x, dtype=float))
        return [canon(v) for v in x]
    if isinstance(x, (bool, np.bool_)):
        return bool(x)
    if isinstance(x, (int, float, np.number)):
        return None if x != x else float(x)
    if isinstance(x, complex):
        return ['c', x.real, x.imag]
    if isinstance(x, bytes):
        return x.decode()
    if x is None or isinstance(x, str):
        return 'NoneType' if x is None else x
    if hasattr(x, 'to_dict'):
        return canon(x.to_dict())
    return repr(x)


def diff_paths(a, b, path=''):
    """First few paths where two canonical structures differ."""
    out = []
    if isinstance(a, dict) and isinstance(b, dict):
        for k in sorted(set(a) | set(b)):
            if k not in a or k not in b:
                out.append(f"{path}/{k} (only in "
                           f"{'cli' if k in a else 'api'})")
            else:
                out += diff_paths(a[k], b[k], f"{path}/{k}")
    elif isinstance(a, list) and isinstance(b, list) and len(a) == len(b) \
            and a[:1] != ['a']:
        for i, (x, y) in enumerate(zip(a, b)):
            out += diff_paths(x, y, f"{path}[{i}]")
    elif a != b:
        if isinstance(a, list) and isinstance(b, list) and a[:1] == ['a'] \
                and b[:1] == ['a'] and a[1] == b[1]:
            x = np.array([np.nan if v is None else v for v in a[2:]], float)
            y = np.array([np.nan if v is None else v for v in b[2:]], float)
            if same(x, y)[0]:
                return out
        out.append(f"{path}: {str(a)[:80]} != {str(b)[:80]}")
    return out[:6]


def sim_dict(sim, src_freq=True):
    """Comparable description of a Simulation incl. its first grid."""
    d = sim.to_dict('plain')
    d.pop('survey', None)
    d['survey.shape'] = list(sim.survey.shape)
    d['survey.keys'] = [list(sim.survey.sources), list(sim.survey.receivers),
                        list(sim.survey.frequencies)]
    d['survey.observed'] = sim.survey.data.observed.data
    if src_freq and not sim.layered:
        s = list(sim.survey.sources)[-1]
        f = list(sim.survey.frequencies)[-1]
        with warnings.catch_warnings():
            warnings.simplefilter('ignore')
            g = sim.get_grid(s, f)
        d['grid.h'] = [np.asarray(h) for h in g.h]
        d['grid.origin'] = np.asarray(g.origin)
    return canon(d)


def label(devs):
    """Violation-class stem for a list of deviations (no digits)."""
    s = '+'.join(devs) if devs else 'default'
    return re.sub(r'\d', '', s)


# ==========================================================================
# the worker
# ==========================================================================
_BASE = {}
_TEMPLATES = {}      # fmt -> directory with the input files (set by run())


def memo_report():
    """Seam: the text of emg3d.utils.Report() (scooby; ~1 s per call, goes
    to the log file and to --report only) is computed once per process."""
    from emg3d import utils
    if getattr(utils.Report, '_c18_memo', None) is None:
        orig = utils.Report.__repr__
        memo = {}

        def cached(self):
            if 'text' not in memo:
                memo['text'] = orig(self)
            return memo['text']
        utils.Report.__repr__ = cached
        utils.Report._c18_memo = memo
        repr(utils.Report())


def fresh_inputs(d, fmt, need=''):
    if fmt in _TEMPLATES:              # prepared once by run()
        shutil.copytree(_TEMPLATES[fmt], d)
    else:                              # replay: build them here
        os.makedirs(d)
        with warnings.catch_warnings():
            warnings.simplefilter('ignore')
            build_inputs(d, fmt, need)


def base_result(fn):
    """API result of the default configuration (to tell whether an option
    changed anything); cached per worker process."""
    if fn not in _BASE:
        with tempfile.TemporaryDirectory(prefix='c18b_') as tmp:
            tmp = os.path.join(tmp, 'b')
            fresh_inputs(tmp, 'h5')
            cfg = [(s, k, subst(v, tmp, 'h5')) for s, k, v in base_cfg()]
            plan = interpret(cfg, ['--' + fn], tmp)
            plan['files']['save'] = None
            res = run_api(plan, tmp)
            _BASE[fn] = {k: v for k, v in res.items() if k != '_sim'}
    return _BASE[fn]


def base_cfg(gridding='same'):
    """Base configuration (templates: {tmp} run directory, {fmt})."""
    return [('files', 'path', '{tmp}'),
            ('files', 'survey', 'survey.{fmt}'),
            ('files', 'model', 'model.{fmt}'),
            ('files', 'output', 'out.{fmt}'),
            ('simulation', 'gridding', gridding),
            ('simulation', 'max_workers', '1')]


def merge_cfg(base, dev):
    """Deviation entries replace base entries of the same (section, key)."""
    keys = {(s, k) for s, k, _ in dev}
    return [e for e in base if (e[0], e[1]) not in keys] + list(dev)


def one_run(c, steps, tmp):
    """Run the CLI steps in tmp/c and the API steps in tmp/a; compare.
    Returns (viol, compared, outcome, info)."""
    import emg3d
    fmt = c['fmt']
    dirs = {side: os.path.join(tmp, side) for side in 'ca'}
    fresh_inputs(dirs['c'], fmt, 'presim' if 'presim' in repr(steps) else '')
    shutil.copytree(dirs['c'], dirs['a'])
    viol, compared, outcomes = [], 0, []
    devs = c.get('dev', [])
    lab = label(devs)
    for istep, step in enumerate(steps):
        res = {}
        for side in 'ca':
            d = dirs[side]
            cfg = [(s, k, subst(v, d, fmt)) for s, k, v in step['cfg']]
            flags = [subst(t, d, fmt) for t in step['flags']]
            if side == 'c':
                cfgfile = os.path.join(d, 'emg3d.cfg')
                write_cfg(cfgfile, cfg)
                argv = ([] if step.get('default_cfg') else [cfgfile]) + flags
                res['c'] = run_cli(argv, d)
                res['cplan'] = None
            elif not step.get('reject'):
                try:
                    plan = interpret(
                        [e for e in cfg if e[0] in DOC and e[1] in
                         DOC[e[0]]], flags, d)
                    res['plan'] = plan
                    res['a'] = ('ok', run_api(plan, d))
                except Stage as e:
                    res['a'] = (e.stage, e.exc)
        status, what, text, cpools = res['c']
        astat, ares = res.get('a', (None, None))
        sfx = f" [step {istep}]" if len(steps) > 1 else ''
        expect_reject = step.get('reject')
        if expect_reject:
            # (d) unknown option: an error is demanded
            compared += 1
            if status == 'ok':
                viol.append({
                    'cls': f'{lab}-accepted',
                    'what': f"unknown option {step['what']} was accepted "
                            "without an error" + sfx})
            how = type(what).__name__ if status == 'raise' else what
            outcomes.append(f"rejected:{status}:{how}")
            continue
        if status != 'ok':
            compared += 1
            msg = (f"{type(what).__name__}: {what}" if status == 'raise'
                   else f"exit {str(what)[:200]}")
            if status == 'raise' and type(what) is type(ares) and (
                    astat not in ('ok', 'accept') or
                    (astat == 'accept' and str(what) == str(ares))):
                # the API sequence fails in the same way after accepting the
                # options - or rejects the same VALUES with the very same
                # error while building the Simulation (e.g. 'No suitable grid
                # found', 'seasurface must be bigger than center'):
                # equivalent behaviour (not a CLI matter)
                outcomes.append(f'both-fail:{astat}:{type(what).__name__}')
                break
            viol.append({'cls': f'{lab}-rejected', 'stage': astat,
                         'step': istep,
                         'what': f"documented option(s) {devs} not accepted "
                                 f"by the CLI: {msg}"[:300] + sfx,
                         'observed': msg,
                         'expected': 'accepted' if astat == 'ok' else
                         f"API reference: {astat}: {ares!r}"[:300]})
            outcomes.append(f'cli-{status}:{type(what).__name__}')
            break
        if astat != 'ok':
            compared += 1
            viol.append({'cls': f'{lab}-accepted-but-api-fails',
                         'what': f"CLI ran, the equivalent API sequence "
                                 f"failed at {astat}: {ares!r}"[:300] + sfx})
            outcomes.append('api-fail')
            break
        plan = res['plan']
        ref = ares
        files_c = interpret([(s, k, subst(v, dirs['c'], fmt))
                             for s, k, v in step['cfg']
                             if s in DOC and k in DOC[s]],
                            [subst(t, dirs['c'], fmt) for t in step['flags']],
                            dirs['c'])['files']
        # ---- output + log files exist where documented
        compared += 1
        if not (os.path.isfile(files_c['output'])
                and os.path.isfile(files_c['log'])):
            viol.append({'cls': f'{lab}-output-file-missing',
                         'what': f"expected output {files_c['output']} and "
                                 f"log; directory has "
                                 f"{sorted(os.listdir(dirs['c']))}" + sfx})
            outcomes.append('no-output')
            break
        out = emg3d.load(files_c['output'], verb=0)
        keys = {k for k in out if not k.startswith('_')} - {'configuration'}
        want = {k for k in ref if not k.startswith('_')}
        if keys != want:
            viol.append({'cls': f'{lab}-output-keys-differ',
                         'what': f"output holds {sorted(keys)}, API sequence "
                                 f"gives {sorted(want)}" + sfx})
        for k in sorted(keys & want):
            compared += 1
            ok, why = same(out[k], ref[k])
            if not ok:
                viol.append({'cls': f'{lab}-{k}-differs-from-api',
                             'what': f"{plan['fn']}/{fmt}: output '{k}' != "
                                     f"API result: {why}" + sfx,
                             'observed': np.asarray(out[k]).ravel()[:6],
                             'expected': np.asarray(ref[k]).ravel()[:6]})
        # ---- process pools requested (sizes) as by the API sequence
        compared += 1
        if cpools != plan['_pools']:
            viol.append({'cls': f'{lab}-pool-sizes-differ-from-api',
                         'what': f"process pools requested by the CLI run "
                                 f"{cpools}, by the API sequence "
                                 f"{plan['_pools']}" + sfx})
        # ---- saved simulation == API-saved simulation
        if files_c['save']:
            compared += 1
            fa = plan['files']['save']
            if not os.path.isfile(files_c['save']):
                viol.append({'cls': f'{lab}-saved-simulation-missing',
                             'what': f"no file {files_c['save']}" + sfx})
            else:
                with warnings.catch_warnings():
                    warnings.simplefilter('ignore')
                    sc = emg3d.Simulation.from_file(files_c['save'], verb=0)
                    sa = emg3d.Simulation.from_file(fa, verb=0)
                dc, da = sim_dict(sc), sim_dict(sa)
                # file_dir / paths legitimately differ by the run directory
                dc = _strip(dc, dirs['c'])
                da = _strip(da, dirs['a'])
                dd = diff_paths(dc, da)
                for nm in ('synthetic', 'observed'):
                    ok, why = same(sc.data[nm].data, sa.data[nm].data)
                    if not ok:
                        dd.append(f"data.{nm}: {why}")
                for nm in ('_misfit', '_gradient', '_computed'):
                    x, y = getattr(sc, nm), getattr(sa, nm)
                    if (x is None) != (y is None) or (
                            x is not None and not same(
                                np.asarray(x, dtype=float),
                                np.asarray(y, dtype=float))[0]):
                        dd.append(f"{nm}: {x!r:.60} != {y!r:.60}")
                if dd:
                    viol.append({
                        'cls': f'{lab}-saved-simulation-differs-from-api',
                        'what': "saved Simulation differs from the "
                                f"API-built one: {dd[:4]}" + sfx,
                        'observed': dd})
        # what happened (for the evidence)
        try:
            b = base_result(plan['fn'])
            changed = not all(same(ref[k], b[k])[0] for k in b if k in ref)
        except Stage:
            changed = None
        if plan['dry']:
            changed = None
        chg = ('-' if changed is None else
               'changed' if changed else 'as-default')
        oc = f"{plan['fn']}:{'dry' if plan['dry'] else 'run'}:{chg}:" \
             f"{'x'.join(map(str, np.shape(ref['data'])))}" \
             f"{':pool' + str(cpools[0]) if cpools else ''}"
        outcomes.append(oc)
    return viol, compared, tuple(outcomes)


def _strip(d, root):
    """Replace the run directory in every string of a canonical struct."""
    if isinstance(d, dict):
        return {k: _strip(v, root) for k, v in d.items()}
    if isinstance(d, list):
        return [_strip(v, root) for v in d]
    if isinstance(d, str):
        return d.replace(root, '<run>')
    return d


def culprit(c, step, tmp):
    """On a rejected multi-deviation case: find a single deviation that is
    rejected alone (fewest deviations first)."""
    devs = c.get('dev', [])
    ents = c.get('dev_entries', [])
    if len(devs) < 2 or len(ents) != len(devs):
        return None
    for dv, ent in zip(devs, ents):
        if ent[0] == 'flag':
            continue
        others = [tuple(e[1:]) for e in ents if e is not ent
                  and e[0] == 'cfg']
        cfg = [e for e in step['cfg'] if tuple(e) not in others]
        d = os.path.join(tmp, 'culprit_' + label([dv]))
        fresh_inputs(d, c['fmt'])
        write_cfg(os.path.join(d, 'emg3d.cfg'),
                  [(s, k, subst(v, d, c['fmt'])) for s, k, v in cfg])
        flags = [subst(t, d, c['fmt']) for t in step['flags']
                 if t not in ('-d', '--dry-run')] + ['--dry-run']
        st = run_cli([os.path.join(d, 'emg3d.cfg')] + flags, d)[0]
        if st != 'ok':
            return dv
    return None


def quiet_tqdm():
    """No tqdm monitor thread and no cross-process tqdm lock in processes
    that fork or are forked (a lock held at fork time is never released)."""
    import threading
    import tqdm
    tqdm.tqdm.monitor_interval = 0
    mon = getattr(tqdm.tqdm, 'monitor', None)
    if mon is not None:
        mon.exit()
        tqdm.tqdm.monitor = None
    tqdm.tqdm.set_lock(threading.RLock())


class _Watchdog:
    """A hanging case becomes an exception (reported) instead of a hang."""

    def __init__(self, seconds):
        self.seconds = seconds

    def __enter__(self):
        import signal

        def handler(signum, frame):
            raise TimeoutError(f"case exceeded {self.seconds} s")
        try:
            self.old = signal.signal(signal.SIGALRM, handler)
            signal.alarm(self.seconds)
        except ValueError:          # not in the main thread
            self.old = None

    def __exit__(self, *exc):
        import signal
        if self.old is not None:
            signal.alarm(0)
            signal.signal(signal.SIGALRM, self.old)


def without_clean_ok(c, step, tmp):
    """Is the rejected step accepted (dry) when --clean is left out?"""
    d = os.path.join(tmp, 'c')
    flags = [subst(t, d, c['fmt']) for t in step['flags']
             if t not in ('--clean', '-d', '--dry-run')] + ['--dry-run']
    return run_cli([os.path.join(d, 'emg3d.cfg')] + flags, d)[0] == 'ok'


def case(c):
    """One lattice point: c = {'fmt', 'dev': [labels], 'steps': [{'cfg':
    [[section, key, value]...], 'flags': [...]}...]}."""
    quiet_tqdm()
    steps = [{**s, 'cfg': [tuple(e) for e in s['cfg']]} for s in c['steps']]
    with _Watchdog(300), tempfile.TemporaryDirectory(prefix='c18_') as tmp:
        viol, compared, outcome = one_run(c, steps, tmp)
        # attribute a rejection of a combination to its smallest part
        for v in viol:
            if not v['cls'].endswith('-rejected'):
                continue
            st = steps[v['step']]
            if '--clean' in st['flags'] and without_clean_ok(c, st, tmp):
                v['cls'] = 'flag-clean-rejected'
                v['what'] += " (accepted without --clean)"
            elif len(c.get('dev', [])) > 1:
                dv = culprit(c, steps[0], tmp)
                if dv:
                    v['cls'] = f'{label([dv])}-rejected'
                    v['what'] += f" (rejected alone: {dv})"
    nontrivial = any(':run:' in o or 'rejected' in o or 'cli-' in o
                     or ':dry:' in o for o in outcome)
    return {'viol': viol, 'compared': compared, 'transitions': len(steps),
            'nontrivial': nontrivial, 'outcome': outcome,
            'count': {'cli_invocations': len(steps),
                      'changed_vs_default': sum('changed' in o
                                                for o in outcome)}}


# ==========================================================================
# enumeration
# ==========================================================================
def documented_keys():
    """Keys listed in docs/manual/cli.rst, per section."""
    import emg3d
    root = os.path.dirname(os.path.dirname(os.path.abspath(emg3d.__file__)))
    path = os.path.join(root, 'docs', 'manual', 'cli.rst')
    out, sec = {}, None
    with open(path) as f:
        for line in f:
            m = re.match(r'\s+\[(\w+)\]\s*$', line)
            if m:
                sec = m.group(1)
                out[sec] = []
                continue
            m = re.match(r'\s+# (\w+) =', line)
            if m and sec and m.group(1) not in out[sec]:
                out[sec].append(m.group(1))
    return out


def fn_flag(fn, i=0):
    return [('-' + fn[0]), '--' + fn][i % 2]


def step_for(entries, fn, long_flag=0, extra_flags=()):
    """entries: list of ('cfg', section, key, value) | ('flag', tokens)."""
    dev_cfg = [tuple(e[1:]) for e in entries if e[0] == 'cfg']
    flags = [t for e in entries if e[0] == 'flag' for t in e[1]]
    secs = {e[0] for e in dev_cfg}
    auto = 'gridding_opts' in secs
    base = base_cfg('single' if auto else 'same')
    if 'layered' in secs and not any(
            e[:2] == ('simulation', 'layered') for e in dev_cfg):
        base.append(('simulation', 'layered', 'True'))
    cfg = merge_cfg(base, dev_cfg)
    if '--path' in flags and not any(e[:2] == ('files', 'path')
                                     for e in dev_cfg):
        cfg = [e for e in cfg if e[:2] != ('files', 'path')]
    fl = list(extra_flags)
    if not any(t in ('-f', '-m', '-g', '--forward', '--misfit', '--gradient')
               for t in flags):
        fl.append(fn_flag(fn, long_flag))
    return {'cfg': [list(e) for e in cfg], 'flags': flags + fl}


def ent_label(e):
    return f"{e[1]}-{e[2]}" if e[0] == 'cfg' else f"flag-{e[2]}"


def mk_case(entries, fn, fmt, mode, k=0):
    """A single-invocation case.  mode 'real' | 'dry'."""
    extra = []
    has_save = any((e[0] == 'cfg' and e[2] in ('save', 'cache')) or
                   (e[0] == 'flag' and ('--save' in e[1] or '--cache' in e[1]))
                   for e in entries)
    has_dry = any(e[0] == 'flag' and e[1][0] in ('-d', '--dry-run')
                  for e in entries)
    if mode == 'dry':
        if not has_dry:
            extra.append('--dry-run')
        if not has_save:
            extra += ['--save', 'drysim.{fmt}']
    step = step_for(entries, fn, k, extra)
    return {'fmt': fmt, 'mode': mode,
            'dev': [ent_label(e) for e in entries],
            'dev_entries': [list(e[:4]) if e[0] == 'cfg' else
                            ['flag', list(e[1])] for e in entries],
            'steps': [step]}


def cfg_entries():
    """[(section, key, value-index, value, mode)] for all documented keys."""
    out = []
    for sec in SECTIONS:
        for key, (_, vals) in DOC[sec].items():
            for i, v in enumerate(vals):
                dry = v in DRY_ONLY.get((sec, key), ()) or \
                    sec == 'gridding_opts'
                out.append((sec, key, i, v, 'dry' if dry else 'real'))
    return out


def cases_depth1(thorough):
    """Every documented key alone, every value; x function x format
    pairwise (each value meets every function and every format)."""
    cs = []
    n = 0
    # the default configuration itself
    for i, fn in enumerate(FUNCS):
        for j, fmt in enumerate(FMTS):
            cs.append(mk_case([], fn, fmt, 'real', i + j))
    for sec, key, i, v, mode in cfg_entries():
        e = ('cfg', sec, key, v)
        n += 1
        if mode == 'real':
            # quick: all three functions for the first value of a key, one
            # (rotating, but one in which the key has an effect) for the
            # further values
            r0 = next(r for r in range(3)
                      if _effective(sec, key, FUNCS[(r + n) % 3]))
            for r in range(3):
                fn, fmt = FUNCS[(r + n) % 3], FMTS[(2*r + n) % 3]
                if thorough or (i == 0 and _relevant(sec, key, fn)) or \
                        (i > 0 and r == r0):
                    cs.append(mk_case([e], fn, fmt, 'real', n + r))
            if sec == 'layered':
                # also without layered=True (options stored, no effect)
                e2 = ('cfg', 'simulation', 'layered', 'False')
                cs.append(mk_case([e, e2], FUNCS[n % 3], FMTS[n % 3],
                                  'real', n))
        # dry runs are cheap: every value meets every file format (a survey
        # read from npz / json holds other scalar types than one from h5)
        for j in range(3):
            cs.append(mk_case([e], FUNCS[(n + j) % 3],
                              FMTS[(n // 3 + j) % 3], 'dry', n + j))
        if sec == 'gridding_opts' and GRID_REAL.get(key) == i:
            comp = [('cfg',) + g for g in GRID_SMALL if g[1] != key]
            c = mk_case([e] + comp, FUNCS[n % 3], FMTS[n % 3], 'real', n)
            c['dev'] = [ent_label(e)]      # companions only keep it small
            c.pop('dev_entries')
            cs.append(c)
    # verbatim documented example values
    for sec, key, v in EXAMPLES:
        n += 1
        for mode in ('real', 'dry'):
            c = mk_case([('cfg', sec, key, v)], FUNCS[n % 3], FMTS[n % 3],
                        mode, n)
            c['dev'] = [f'documented-example-{key}={v}']
            cs.append(c)
    # command-line flags alone
    for lab, toks, _ in FLAGS:
        n += 1
        e = ('flag', toks, lab)
        for r in range(3 if thorough else 1):
            cs.append(mk_case([e], FUNCS[(n + r) % 3], FMTS[(n + 2*r) % 3],
                              'real', n + r))
        if not any(t in toks for t in ('--load', '--cache', '-d',
                                       '--dry-run')):
            cs.append(mk_case([e], FUNCS[n % 3], FMTS[n % 3], 'dry', n))
    return cs


def _effective(sec, key, fn):
    """Is `fn` a function in which the key really changes the output?"""
    if sec == 'noise_opts':
        return fn == 'forward'
    if key == 'tol_gradient':
        return fn == 'gradient'
    return True


def _relevant(sec, key, fn):
    """Quick tier: drop (key, function) combinations in which the key is
    documented to have no effect (noise only with --forward, tol_gradient
    only for the gradient); everything else runs with all three."""
    if sec == 'noise_opts':
        return fn in ('forward', 'misfit')
    if key == 'tol_gradient':
        return fn in ('gradient', 'forward')
    return True


def cases_overlap(thorough):
    """(c) the same option on the command line and in the file."""
    cs = []
    for n, (lab, toks, ent) in enumerate(OVERLAP):
        e = [('flag', toks, lab), ('cfg',) + ent]
        for r in range(3 if thorough else 1):
            fn, fmt = FUNCS[(n + r) % 3], FMTS[(n + 2*r) % 3]
            if lab == 'save' and fmt == 'json' and fn != 'forward':
                fn = 'forward'
            c = mk_case(e, fn, fmt, 'real', n)
            c['dev'] = [f'precedence-{lab}']
            c.pop('dev_entries')
            cs.append(c)
        if lab in ('nproc', 'layered', 'save'):
            c = mk_case(e, FUNCS[n % 3], FMTS[n % 3], 'dry', n)
            c['dev'] = [f'precedence-{lab}']
            c.pop('dev_entries')
            cs.append(c)
    return cs


def cases_reject():
    """(d) unknown key in every section, unknown / malformed flags."""
    cs = []
    n = 0
    for sec in SECTIONS:
        for key in ('bogus_key', {'gridding_opts': 'cell_numbers',
                                  'solver_opts': 'tolerance',
                                  'files': 'surveys',
                                  'simulation': 'solver_opts',
                                  'noise_opts': 'noise_floor',
                                  'data': 'source',
                                  'layered': 'ellipse'}[sec]):
            for dry in (True, False):
                n += 1
                base = base_cfg('single' if sec == 'gridding_opts'
                                else 'same')
                # the unknown key next to a valid key of the same section
                good = next(iter(DOC[sec].items()))
                cfg = merge_cfg(base, [(sec, good[0], good[1][1][0])]
                                if sec not in ('files', 'gridding_opts')
                                else [])
                cfg = cfg + [(sec, key, '1')]
                st = {'cfg': [list(e) for e in cfg],
                      'flags': [fn_flag(FUNCS[n % 3], n)] +
                      (['--dry-run'] if dry else []),
                      'reject': 'key', 'what': f'[{sec}] {key}'}
                cs.append({'fmt': FMTS[n % 3], 'mode': 'reject',
                           'dev': [f'unknown-{sec}-key'], 'steps': [st]})
    for toks in (['--bogus'], ['-x'], ['--survey'], ['-f', '-m'],
                 ['--gradient', '--forward'], ['--nproc', 'two'],
                 ['--verbosity', '5'], ['-v', '-q'], ['--cleanup'],
                 ['--layers'], ['--cell_number', '8'],
                 ['extra.cfg', 'positional']):
        n += 1
        st = {'cfg': [list(e) for e in base_cfg()],
              'flags': list(toks) + ['-d'],
              'reject': 'flag', 'what': ' '.join(toks)}
        cs.append({'fmt': FMTS[n % 3], 'mode': 'reject',
                   'dev': ['unknown-flag'], 'steps': [st]})
    return cs


def cases_sequences(thorough):
    """(e) load / save / cache / clean round trips."""
    def st(flags, cfg=()):
        return {'cfg': [list(e) for e in merge_cfg(base_cfg(), list(cfg))],
                'flags': list(flags)}
    S = 's.{fmt}'
    seqs = {
        'save-load-gradient': [st(['-m', '--save', S]),
                               st(['-g', '--load', S])],
        'save-load-forward': [st(['-f', '--save', S]),
                              st(['-f', '--load', S, '--output', 'o2.{fmt}'])],
        'cache-cache': [st(['-f', '--save', S]), st(['-m', '--cache', S]),
                        st(['-g', '--cache', S])],
        'dry-save-load': [st(['-d', '--save', S]), st(['-m', '--load', S])],
        'load-clean-model': [st(['-m', '--save', S]),
                             st(['-m', '--load', S, '--clean', '--model',
                                 'model2.{fmt}'])],
        'cache-clean-model': [st(['-f', '--save', S]),
                              st(['-g', '--cache', S, '--clean', '--model',
                                  'model2.{fmt}']),
                              st(['-m', '--load', S])],
        'clean-with-gridding-section': [
            st(['-m', '--save', S]),
            st(['-m', '--load', S, '--clean', '--model', 'model2.{fmt}'],
               [('gridding_opts', 'frequency', '1.0')])],
        'load-switch-to-layered': [st(['-m', '--save', S]),
                                   st(['-m', '--load', S, '-l'])],
        'layered-save-load-plain': [st(['-m', '-l', '--save', S]),
                                    st(['-m', '--load', S])],
        'layered-cache-gradient': [st(['-m', '--save', S],
                                      [('simulation', 'layered', 'True'),
                                       ('layered', 'method', 'prism'),
                                       ('layered', 'radius', '300.5')]),
                                   st(['-g', '--cache', S, '-l'])],
        'cfg-save-cfg-load': [st(['-m'], [('files', 'save', S)]),
                              st(['-g'], [('files', 'load', S)])],
        'cfg-cache': [st(['-f', '--save', S]),
                      st(['-g'], [('files', 'cache', S)])],
        'load-ignores-sections': [
            st(['-f', '--save', S]),
            st(['-m', '--load', S],
               [('solver_opts', 'maxit', '1'), ('data', 'sources', 'TxED-1'),
                ('files', 'survey', 'survey2.{fmt}')])],
    }
    cs = []
    for n, (name, steps) in enumerate(seqs.items()):
        for r in range(3 if thorough else 1):
            fmt = FMTS[(n + r) % 3]
            cs.append({'fmt': fmt, 'mode': 'sequence',
                       'dev': [f'sequence-{name}'], 'steps': steps})
    return cs


def cases_depth2():
    """All pairs of documented keys within a section (all value pairs), and
    every flag x every config key."""
    cs = []
    ents = cfg_entries()
    n = 0
    for sec in SECTIONS:
        es = [e for e in ents if e[0] == sec]
        for a, b in itertools.combinations(es, 2):
            if a[1] == b[1]:
                continue
            n += 1
            pair = [('cfg', sec, a[1], a[3]), ('cfg', sec, b[1], b[3])]
            mode = 'dry' if 'dry' in (a[4], b[4]) else 'real'
            fn, fmt = FUNCS[n % 3], FMTS[(n // 3) % 3]
            cs.append(mk_case(pair, fn, fmt, mode, n))
    for lab, toks, _ in FLAGS:
        for sec, key, i, v, mode in ents:
            if i > 0:
                continue
            n += 1
            pair = [('flag', toks, lab), ('cfg', sec, key, v)]
            if any(t in toks for t in ('-d', '--dry-run')):
                mode = 'real'     # the flag itself makes it a dry run
            if mode == 'dry' and any(t in toks for t in ('--load',
                                                         '--cache')):
                continue
            cs.append(mk_case(pair, FUNCS[n % 3], FMTS[(n // 3) % 3], mode,
                              n))
    return cs


def prepare(ctx):
    from .. import impl
    impl.warm()
    memo_report()
    # run every kind of computation once in the parent, so that all jitted
    # kernels (emg3d, empymod) and lazy imports are inherited by the workers
    for c in (mk_case([], 'gradient', 'h5', 'real'),
              mk_case([('flag', ['-l'], 'layered')], 'gradient', 'npz',
                      'real'),
              mk_case([('cfg', 'simulation', 'receiver_interpolation',
                        'cubic')], 'forward', 'json', 'dry')):
        case(c)
    quiet_tqdm()


def run(ctx):
    prepare(ctx)
    doc = documented_keys()
    mine = {s: list(DOC[s]) for s in SECTIONS}
    if {s: sorted(v) for s, v in doc.items()} != \
            {s: sorted(v) for s, v in mine.items()}:
        raise RuntimeError("docs/manual/cli.rst lists other keys than this "
                           f"check enumerates: doc={doc} check={mine}")
    ctx.notes['documented_keys'] = sum(len(v) for v in doc.values())
    ctx.assume(
        "documented keys = the commented '# key =' lines of "
        "docs/manual/cli.rst (verified against the check's table at start); "
        "values come from a finite alphabet written in the documented syntax "
        "(1-5 values per key, non-integer floats, the documented examples)",
        "survey 2 sources x 3 receivers (one without any observed data) x 2 "
        "frequencies on an 8x8x8 grid; gridding 'same' and max_workers 1 "
        "unless the option under test says otherwise; automatic-gridding "
        "options are compared through --dry-run --save (gridding_opts and the "
        "constructed grid) and for one value per key in a real run",
        "CLI and API run in the same process on identical input files; "
        "numpy.random.default_rng is replaced by a fixed-seed generator in "
        "both; equality demanded to 1e-12 of the largest reference value "
        "(NaN pattern identical)",
        "CLI conveniences mirrored by the reference: default name, "
        "receiver_interpolation 'linear' for --gradient when not given "
        "(documented remark), verb=-1, progress bars off, remove_empty False",
        "a failure of the API sequence *after* the options were accepted "
        "(e.g. saving a Simulation with a cached misfit as json) that the CLI "
        "reproduces with the same exception type counts as equivalent",
        "unknown *sections* are outside the stated property and not tested")
    thorough = not ctx.quick
    cap = ctx.budget or (440 if ctx.quick else 2200)
    with tempfile.TemporaryDirectory(prefix='c18t_') as troot:
        # input files are written once here; every case copies them
        for fmt in FMTS:
            _TEMPLATES[fmt] = os.path.join(troot, fmt)
            os.makedirs(_TEMPLATES[fmt])
            with warnings.catch_warnings():
                warnings.simplefilter('ignore')
                build_inputs(_TEMPLATES[fmt], fmt, 'presim')
        try:
            _explore(ctx, thorough, cap)
        finally:
            ctx.close()
            _TEMPLATES.clear()


def _explore(ctx, thorough, cap):
    rule1 = ('lattice depth 1: every documented key alone with every value '
             'of its alphabet, every flag alone; each in a real run with '
             'every function and file formats rotated so that every value '
             'meets every function and format (pairwise), plus one '
             '--dry-run --save attribute comparison; non-trivial = a CLI '
             'invocation whose result was compared with the API sequence')
    if ctx.wants('keys'):
        ctx.explore('keys', FN, cases_depth1(thorough), engine='E1',
                    rule=rule1, time_cap=cap, chunksize=1)
    if ctx.wants('precedence'):
        ctx.explore('precedence', FN, cases_overlap(thorough), engine='E1',
                    rule='every option available both ways, with different '
                         'values on the command line and in the file',
                    time_cap=cap, chunksize=1)
    if ctx.wants('reject'):
        ctx.explore('reject', FN, cases_reject(), engine='E1',
                    rule='unknown key (made-up and near-miss) in each of the '
                         '7 sections, dry and real; unknown / malformed / '
                         'mutually exclusive flags',
                    time_cap=cap, chunksize=1)
    if ctx.wants('sequences'):
        ctx.explore('sequences', FN, cases_sequences(thorough), engine='E1',
                    rule='save/load/cache/clean sequences of 2-3 CLI '
                         'invocations versus the same API sequence',
                    time_cap=cap, chunksize=1)
    if thorough and ctx.wants('pairs'):
        ctx.explore('pairs', FN, cases_depth2(), engine='E1',
                    rule='lattice depth 2: all pairs of keys within a '
                         'section (all value pairs) and every flag x every '
                         'config key; function and format rotated',
                    time_cap=ctx.budget or 1000, chunksize=1)
