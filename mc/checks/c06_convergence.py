"""C06 - grid-size-independent multigrid convergence on the reference problems.

E1 over a finite deterministic configuration set (the quantifier is finite):
n x cycle x medium x domain (frequency / Laplace) x smoothing counts,
stand-alone multigrid on uniform grids.  Oracle: calibrated rate bounds
(h-independence: rate(n) <= 2.5 rate(16^3) + 0.05; absolute caps = pinned
value x 1.5 from the
committed table c06_table.json; cycles to tolerance <= pinned + 3).

This is a measurement against calibrated thresholds - level 'exploration'.
Calibration (writes the table; run on a tree known to be good):
    /venv/bin/python -m mc.checks.c06_convergence calibrate
"""
import json
import os
import sys
import warnings

import numpy as np

from .. import impl

LEVEL = 'exploration'
FN = 'mc.checks.c06_convergence:case'
TABLE = os.path.join(os.path.dirname(__file__), 'c06_table.json')
TOL = 1e-8
L = 6400.0


def configs(sizes, full_nu):
    """iso / tri (the two media named in the property): smoothing counts on
    the diagonal (quick) or the full 3x3 (thorough); hti / vti (other mildly
    anisotropic media, 1:2): (1,1) and (2,2) (quick) or the diagonal."""
    out = []
    for cyc in ('F', 'V', 'W'):
        for med in ('iso', 'tri', 'hti', 'vti'):
            for dom in ('freq', 'laplace'):
                if med in ('iso', 'tri'):
                    nus = [(a, b) for a in (1, 2, 3) for b in (1, 2, 3)] \
                        if full_nu else [(1, 1), (2, 2), (3, 3)]
                else:
                    nus = [(1, 1), (2, 2), (3, 3)] if full_nu else \
                        [(1, 1), (2, 2)]
                for nu in nus:
                    out.append({'cycle': cyc, 'medium': med, 'domain': dom,
                                'nu': nu, 'sizes': sizes})
    return out


def key(c):
    return f"{c['cycle']}-{c['medium']}-{c['domain']}-{c['nu'][0]}{c['nu'][1]}"


def solve_one(c, shape):
    import emg3d
    # uniform grid: cubic cells; cubes refine a fixed domain of size L
    hc = L/shape[0] if len(set(shape)) == 1 else 200.0
    h = [np.ones(n)*hc for n in shape]
    grid = emg3d.TensorMesh(h, origin=tuple(-hc*n/2 for n in shape))
    if c['medium'] == 'iso':
        model = emg3d.Model(grid, 1.0)
    elif c['medium'] == 'hti':
        model = emg3d.Model(grid, 1.0, 2.0)
    elif c['medium'] == 'vti':
        model = emg3d.Model(grid, 1.0, property_z=2.0)
    else:
        model = emg3d.Model(grid, 1.0, 2.0, 3.0)
    freq = 1.0 if c['domain'] == 'freq' else -1.0
    src = emg3d.TxElectricDipole((-300., 500., -200., 700., 100., 300.))
    sfield = emg3d.get_source_field(grid, src, freq)
    with warnings.catch_warnings():
        warnings.simplefilter('ignore')
        _, info = emg3d.solve(
            model, sfield, plain=True, cycle=c['cycle'], nu_pre=c['nu'][0],
            nu_post=c['nu'][1], tol=TOL, maxit=60, return_info=True, verb=-1)
    err = info['error_at_cycle']
    it = int(info['it_mg'])
    rho = float((err[-1]/err[0])**(1.0/max(it, 1)))
    return {'rho': rho, 'it': it, 'exit': int(info['exit']),
            'msg': info['exit_message']}


def measure(c):
    return {str(tuple(s)): solve_one(c, tuple(s)) for s in c['sizes']}


def case(c):
    table = json.load(open(TABLE))
    res = measure(c)
    pinned = table.get(key(c), {})
    viol = []
    k16 = str((16, 16, 16))
    rho16 = res[k16]['rho'] if k16 in res else pinned.get(k16, {}).get('rho')
    for sk, r in res.items():
        shape = eval(sk)
        what = f"{key(c)} {sk}: rho={r['rho']:.3f} it={r['it']} {r['msg']}"
        if r['exit'] != 0:
            viol.append({'cls': 'multigrid-did-not-converge', 'what': what})
            continue
        pin = pinned.get(sk)
        if pin is None:
            viol.append({'cls': 'no-calibration-entry', 'what': what})
            continue
        if min(shape) >= 16 and rho16 is not None and \
                not r['rho'] <= 2.5*rho16 + 0.05:
            viol.append({'cls': 'convergence-rate-deteriorates-with-size',
                         'what': what + f' vs rho(16^3)={rho16:.3f}'})
        if not r['rho'] <= 1.5*pin['rho'] + 0.01:
            viol.append({'cls': 'convergence-rate-above-calibrated-cap',
                         'what': what + f" pinned rho={pin['rho']:.3f}"})
        if not r['it'] <= pin['it'] + 3:
            viol.append({'cls': 'more-cycles-than-calibrated',
                         'what': what + f" pinned it={pin['it']}"})
    return {'viol': viol, 'compared': len(res), 'transitions': sum(
        r['it'] for r in res.values()), 'nontrivial': True,
        'outcome': tuple(r['it'] for r in res.values()),
        'count': {'solves': len(res)}}


# non-cubic 2^a x 3*2^b x 5*2^c shapes: in (16,24,10) z stops coarsening
# before y, in (8,48,20) y is the most coarsenable direction
SIZES_Q = [(8, 8, 8), (16, 16, 16), (32, 32, 32), (16, 24, 10), (8, 48, 20)]
SIZES_T = SIZES_Q + [(64, 64, 64), (16, 24, 40), (32, 48, 20), (64, 12, 40),
                     (32, 48, 10), (16, 96, 40), (20, 12, 24)]
SIZES_T2 = [(128, 128, 128)]


def prepare(ctx):
    impl.warm()


def run(ctx):
    prepare(ctx)
    q = ctx.quick
    ctx.assume(
        "finite deterministic configuration set; thresholds are calibrated "
        "on the pinned tree (c06_table.json) with a 1.5x margin",
        "this is a measurement, not an invariant (level: exploration)")
    cs = configs(SIZES_Q if q else SIZES_T, not q)
    ctx.explore('rates', FN, cs, engine='E1',
                rule='cycle x medium x domain x (nu_pre, nu_post) (diagonal '
                     'in quick, full 3x3 in thorough) x grid sizes; one '
                     'stand-alone multigrid solve each',
                time_cap=ctx.budget or (600 if q else 4800), chunksize=1)
    if not q:
        cs = [dict(c, sizes=SIZES_T2) for c in configs(SIZES_T2, False)
              if c['nu'] == (2, 2) and c['medium'] in ('iso', 'tri')]
        ctx.explore('rates-128', FN, cs, engine='E1',
                    rule='128^3, nu=(2,2)', time_cap=1500, chunksize=1)


def calibrate(only_missing=True):
    """Measure on the current tree (must be known to be good) and write the
    table; by default only entries that are not in the table yet."""
    import multiprocessing as mp
    impl.warm()
    table = json.load(open(TABLE)) if os.path.exists(TABLE) else {}
    cs = configs(SIZES_T + SIZES_T2, True)
    # 128^3 only for nu (2,2) of the media named in the property
    for c in cs:
        if c['nu'] != (2, 2) or c['medium'] not in ('iso', 'tri'):
            c['sizes'] = SIZES_T
    if only_missing:
        todo = []
        for c in cs:
            miss = [s_ for s_ in c['sizes']
                    if str(tuple(s_)) not in table.get(key(c), {})]
            if miss:
                todo.append(dict(c, sizes=miss))
        cs = todo
    with mp.get_context('fork').Pool(14) as pool:
        res = pool.map(measure, cs, chunksize=1)
    for c, r in zip(cs, res):
        table.setdefault(key(c), {}).update(r)
    with open(TABLE, 'w') as f:
        json.dump(table, f, indent=1, sort_keys=True)
    print('written', TABLE, len(table), 'measured', len(cs))


if __name__ == '__main__':
    if sys.argv[1:] == ['calibrate']:
        calibrate()
    elif sys.argv[1:] == ['calibrate', 'all']:
        calibrate(False)
