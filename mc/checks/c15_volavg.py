"""C15 - volume averaging between tensor grids conserves the integrated
property, stays in range, is the identity between equal grids, fills outside
with the nearest value and is the linear map whose transpose brings gradients
back (discretize.utils.volume_average / emg3d.maps._interp_volume_average_adj).

Engine E1, three explorations against the real ``emg3d.maps.interpolate(
method='volume')`` (numba kernel ``interp_volume_average``):

``pairs1d``  1-D node sets = all subsets with >= 2 points of the lattice
             {0..6} (120 grids; thorough {0..8}: 502 grids); *all ordered
             pairs*, each run through the 3-D routine in x, in y and in z
             (the other two directions single cells: one strictly inside, one
             overhanging its old cell).
``pairs3d``  full product 12 x 12 x 12 of selected 1-D pairs (equal, refined,
             coarsened, non-nested, inside, overhang left / right / both,
             disjoint left / right, single cells) in true 3-D, 1..6 cells per
             direction (thorough: 14^3 with two 12-cell half-step grids).
``model``    ``Model.interpolate_to_grid`` for 3-D grid pairs x 4 anisotropy
             cases x {-, mu_r} x {-, eps_r}, the same conductivities in all
             six mappings.

Per pair the complete matrix F of the real map is obtained from the unit
basis and compared with the exact overlap reference (mc.refmodel.volavg), with
the dense discretize operator, and with the matrix of the real adjoint routine
on a full basis; rows, conservation, identity; log mode on positive profiles
over 8 decades.  Lattice units per direction are (50, 0.7, 1900): x and z
coordinates are exact in floating point, y coordinates are not.
"""
import itertools
import warnings

import numpy as np

from .. import zoo
from ..refmodel import volavg

FN_1D = 'mc.checks.c15_volavg:case_pairs1d'
FN_3D = 'mc.checks.c15_volavg:case_pairs3d'
FN_MODEL = 'mc.checks.c15_volavg:case_model'
FN_SIM = 'mc.checks.c15_volavg:case_simgrad'

UNIT = (50.0, 0.7, 1900.0)
ORIGIN = (-10.0, 3.3, -5000.0)
# single cells of the passive directions (lattice coordinates): old, new
PASSIVE = (((0.0, 2.0), (0.5, 1.5)),        # new strictly inside old
           ((0.0, 2.0), (-1.0, 3.0)))       # new overhangs old on both sides

# selected 1-D pairs (old, new) on the lattice {0..6}
SELECTED = (
    ((0, 1, 2, 3, 4, 5, 6), (0, 1, 2, 3, 4, 5, 6)),   # equal
    ((0, 2, 4, 6), (0, 1, 2, 3, 4, 5, 6)),            # refined, same extent
    ((0, 1, 2, 3, 4, 5, 6), (0, 3, 6)),               # coarsened
    ((0, 1, 3, 6), (0, 2, 5, 6)),                     # non-nested
    ((1, 2, 4, 5), (0, 3, 6)),                        # overhang both sides
    ((0, 6), (2, 3, 5)),                              # one old cell, inside
    ((0, 2, 3), (1, 4, 6)),                           # overhang right
    ((2, 4, 5, 6), (0, 1, 3, 5)),                     # overhang left
    ((0, 1, 2), (4, 5, 6)),                           # disjoint (right)
    ((3, 5, 6), (0, 2)),                              # disjoint (left)
    ((0, 3, 4, 6), (2, 5)),                           # one new cell
    ((1, 5), (0, 6)),                                 # single cells, overhang
)
HALF = tuple(np.arange(13)/2.0)                       # 12 cells, half steps
SELECTED_T = SELECTED + (
    (HALF, (0, 1, 3, 6)),
    ((0.5, 2, 2.5, 5), HALF),
)


# ------------------------------------------------------------------- builders
def nodes_of(lat, d):
    return ORIGIN[d] + UNIT[d]*np.asarray(lat, dtype=float)


def mesh_from_nodes(nodes):
    import emg3d
    return emg3d.TensorMesh([np.diff(n) for n in nodes],
                            origin=tuple(float(n[0]) for n in nodes))


def grid_nodes(g):
    return (np.asarray(g.nodes_x), np.asarray(g.nodes_y),
            np.asarray(g.nodes_z))


def profile(shape, kind, tag):
    """Positive values over 8 decades (1e-4 .. 1e4)."""
    n = int(np.prod(shape))
    if kind == 'geo':      # deterministic, shuffled by a fixed stride
        e = -4.0 + 8.0*((np.arange(n)*7 + 3) % max(n, 1))/max(n-1, 1)
        e = np.clip(e, -4.0, 4.0)
    else:                  # seeded
        e = zoo.rng('c15', tag, tuple(shape)).uniform(-4.0, 4.0, n)
    return (10.0**e).reshape(shape, order='F')


def dense_forward(gold, gnew):
    """Matrix of the real map, column by column (unit basis)."""
    from emg3d import maps
    no, nn = int(gold.n_cells), int(gnew.n_cells)
    F = np.zeros((nn, no))
    so = tuple(gold.shape_cells)
    for i in range(no):
        v = np.zeros(no)
        v[i] = 1.0
        out = maps.interpolate(gold, v.reshape(so, order='F'), gnew,
                               method='volume')
        F[:, i] = np.asarray(out).ravel('F')
    return F


def dense_adjoint(gold, gnew):
    """Matrix M with  adj(nval) = M^T-rows, i.e. M[j, :] = image of e_j, from
    the real _interp_volume_average_adj; three basis vectors per call (one
    per component, scaled 1, 2, -3; the target pre-filled with 0.5)."""
    from emg3d import maps
    no, nn = int(gold.n_cells), int(gnew.n_cells)
    so, sn = tuple(gold.shape_cells), tuple(gnew.shape_cells)
    M = np.full((nn, no), np.nan)
    scal = (1.0, 2.0, -3.0)
    for t in range(0, nn, 3):
        nval = np.zeros((3, nn))
        for k in range(3):
            if t + k < nn:
                nval[k, t+k] = scal[k]
        nval = np.asfortranarray(
            np.stack([x.reshape(sn, order='F') for x in nval]))
        oval = np.full((3, *so), 0.5, order='F')
        maps._interp_volume_average_adj(oval, gold, nval, gnew)
        for k in range(3):
            if t + k < nn:
                M[t+k] = (oval[k].ravel('F') - 0.5)/scal[k]
            elif np.abs(oval[k] - 0.5).max() > 0:
                M[:] = np.nan       # zero input must add nothing
    return M


# --------------------------------------------------------------- pair oracle
def check_pair(gold, gnew, tag, viol, adjoint=True, kinds=('geo', 'rnd')):
    """All oracles for one (old grid, new grid); returns (compared, info)."""
    import discretize
    from emg3d import maps
    on, nn_ = grid_nodes(gold), grid_nodes(gnew)
    so, sn = tuple(gold.shape_cells), tuple(gnew.shape_cells)
    rel = tuple(volavg.relation(o, n) for o, n in zip(on, nn_))
    compared = 0

    def bad(cls, what, obs=None, exp=None):
        viol.append({'cls': cls, 'what': f'{tag}: {what}', 'observed': obs,
                     'expected': exp})

    F = dense_forward(gold, gnew)
    w3 = volavg.weights_3d(on, nn_)
    Fref = volavg.matrix_3d(on, nn_, w3)
    compared += F.size
    err = np.abs(F - Fref).max()
    if not err <= 1e-13:
        o, i = np.unravel_index(np.argmax(np.abs(F - Fref)), F.shape)
        cls = 'volume-average-differs-from-overlap-reference'
        bad(cls, f'relations {rel}: max |F - F_ref| = {err:.2e} at new cell '
            f'{o}, old cell {i}', F[o], Fref[o])
    # rows: non-negative weights summing to one (=> range preservation)
    rs = np.abs(F.sum(1) - 1.0).max()
    compared += F.shape[0]
    if not (F.min() >= 0.0 and rs <= 1e-13):
        bad('weights-not-a-convex-combination',
            f'relations {rel}: min weight {F.min():.2e}, max |row sum - 1| = '
            f'{rs:.2e}')
    # identity between equal grids
    if all(r == 'equal' for r in rel):
        if not np.abs(F - np.eye(F.shape[0])).max() <= 1e-14:
            bad('not-identity-between-equal-grids',
                f'max |F - I| = {np.abs(F - np.eye(F.shape[0])).max():.2e}')
    # conservation of the integral for grids covering the same region
    same_region = all(r in ('equal', 'same-extent') for r in rel)
    vo = volavg.volumes(on).ravel('F')
    vn = volavg.volumes(nn_).ravel('F')
    if same_region:
        ce = np.abs(vn @ F - vo).max()/vo.max()
        compared += F.shape[1]
        if not ce <= 1e-12:
            bad('integral-not-conserved',
                f'sum_new vol*F != vol_old: {ce:.2e} (relative)')
    # the third-party operator whose transpose the gradient uses
    P = discretize.utils.volume_average(gold, gnew).toarray()
    compared += P.size
    pe = np.abs(F - P).max() if P.shape == F.shape else np.inf
    if not pe <= 1e-13:
        bad('forward-map-differs-from-discretize-operator',
            f'relations {rel}: max |F - P| = {pe:.2e}')
    if adjoint:
        M = dense_adjoint(gold, gnew)
        compared += M.size
        with np.errstate(invalid='ignore'):
            ae = np.abs(M - F).max()
        if not ae <= 1e-13:
            bad('adjoint-routine-is-not-transpose-of-forward-map',
                f'relations {rel}: _interp_volume_average_adj on a full basis'
                f' vs F^T: {ae:.2e}')

    # value profiles: linear and log mode
    for kind in kinds:
        v = profile(so, kind, (so, sn))
        vkeep = v.copy()
        with np.errstate(all='ignore'):
            lin = np.asarray(maps.interpolate(gold, v, gnew, method='volume'))
            log = np.asarray(maps.interpolate(gold, v, gnew, method='volume',
                                              log=True))
            rlog = np.asarray(maps.interpolate(gold, 1.0/v, gnew,
                                               method='volume', log=True))
        if not np.array_equal(v, vkeep):
            bad('interpolate-modifies-input', 'input values changed')
        if lin.shape != sn or log.shape != sn:
            bad('result-has-wrong-shape', f'{lin.shape} / {log.shape}', None,
                sn)
            continue
        linref = volavg.apply_3d(on, nn_, v, w3)
        lv = np.log10(v)
        logexp = volavg.apply_3d(on, nn_, lv, w3)
        logref = 10.0**logexp
        compared += 3*lin.size
        e = np.abs(lin - linref).max()/v.max()
        if not e <= 1e-13:
            bad('linear-mode-differs-from-reference',
                f'{kind} profile, relations {rel}: {e:.2e}')
        with np.errstate(all='ignore'):
            e = np.abs(log/logref - 1.0)
            e = np.where(np.isfinite(e), e, np.inf).max()
        if not e <= 1e-12:
            bad('log-mode-differs-from-reference',
                f'{kind} profile, relations {rel}: 10**(F log10 v) off by '
                f'{e:.2e} (relative)', log.ravel('F')[:4],
                logref.ravel('F')[:4])
        with np.errstate(all='ignore'):
            e = np.abs(log*rlog - 1.0)
            e = np.where(np.isfinite(e), e, np.inf).max()
        if not e <= 1e-12:
            bad('log-mode-resistivity-conductivity-inconsistent',
                f'{kind} profile: result(1/v) * result(v) - 1 = {e:.2e}')
        for name, r in (('linear', lin), ('log', log)):
            with np.errstate(all='ignore'):
                okr = (np.all(r >= v.min()*(1 - 1e-12)) and
                       np.all(r <= v.max()*(1 + 1e-12)))
            if not okr:
                bad('result-leaves-input-range',
                    f'{name} mode, {kind} profile, relations {rel}: result in'
                    f' [{np.min(r):.4g}, {np.max(r):.4g}], input in '
                    f'[{v.min():.4g}, {v.max():.4g}]')
        if same_region:
            compared += 2
            tot = (v*volavg.volumes(on)).sum()
            e = abs((lin*volavg.volumes(nn_)).sum() - tot)/tot
            if not e <= 1e-12:
                bad('integral-not-conserved',
                    f'linear mode, {kind} profile: integral changes by '
                    f'{e:.2e} (relative)')
            tot = (lv*volavg.volumes(on)).sum()
            sc = (np.abs(lv)*volavg.volumes(on)).sum()
            with np.errstate(all='ignore'):
                e = abs((np.log10(log)*volavg.volumes(nn_)).sum() - tot)/sc
            if not e <= 1e-12:
                bad('integral-of-logarithm-not-conserved',
                    f'log mode, {kind} profile: integral of log10 changes by '
                    f'{e:.2e} (relative)')
    return compared, rel


def all_subsets(npts):
    out = []
    for r in range(2, npts+1):
        out += list(itertools.combinations(range(npts), r))
    return out


# -------------------------------------------------------------------- pairs1d
def cases_pairs1d(tier):
    sets = all_subsets(7 if tier == 'quick' else 9)
    # value profiles per direction: quick x: geo, y: rnd, z: geo;
    # thorough: both in x, rnd in y, geo in z
    kinds = ('geo', 'rnd', 'geo') if tier == 'quick' else \
        ('geo', 'rnd', 'geo', 'rnd')
    return [{'old': a, 'new': b, 'kinds': kinds} for a in sets for b in sets]


def case_pairs1d(c):
    viol = []
    compared = 0
    rels = []
    with warnings.catch_warnings():
        warnings.simplefilter('ignore')
        for d in range(3):
            old, new = [None]*3, [None]*3
            old[d] = nodes_of(c['old'], d)
            new[d] = nodes_of(c['new'], d)
            for k, dd in enumerate([(d+1) % 3, (d+2) % 3]):
                old[dd] = nodes_of(PASSIVE[k][0], dd)
                new[dd] = nodes_of(PASSIVE[k][1], dd)
            gold, gnew = mesh_from_nodes(old), mesh_from_nodes(new)
            n, rel = check_pair(gold, gnew, f'direction {"xyz"[d]}', viol,
                                kinds=c.get('kinds', ('geo', 'rnd'))[d::3]
                                or ('geo',))
            compared += n
            rels.append(rel[d])
    return {'viol': viol, 'compared': compared, 'transitions': 3,
            'nontrivial': rels[0] != 'equal',
            'count': {'rel_'+rels[0]: 1},
            'outcome': (rels[0], len(c['old'])-1, len(c['new'])-1)}


# -------------------------------------------------------------------- pairs3d
def cases_pairs3d(tier):
    sel = SELECTED if tier == 'quick' else SELECTED_T
    idx = range(len(sel))
    return [{'pairs': p, 'set': 'q' if tier == 'quick' else 't'}
            for p in itertools.product(idx, repeat=3)]


def grids_3d(pairs, which):
    sel = SELECTED if which == 'q' else SELECTED_T
    old = [nodes_of(sel[p][0], d) for d, p in enumerate(pairs)]
    new = [nodes_of(sel[p][1], d) for d, p in enumerate(pairs)]
    return mesh_from_nodes(old), mesh_from_nodes(new)


def case_pairs3d(c):
    viol = []
    with warnings.catch_warnings():
        warnings.simplefilter('ignore')
        gold, gnew = grids_3d(c['pairs'], c.get('set', 'q'))
        compared, rel = check_pair(gold, gnew, f'pairs {tuple(c["pairs"])}',
                                   viol)
    return {'viol': viol, 'compared': compared,
            'transitions': int(gold.n_cells),
            'nontrivial': any(r != 'equal' for r in rel),
            'outcome': tuple(sorted(rel)) + (int(gold.n_cells) > 1,)}


# ---------------------------------------------------------------------- model
def _lin(mp):
    return mp in ('Conductivity', 'Resistivity')


def _to_sigma(mp, m):
    m = np.asarray(m, dtype=float)
    with np.errstate(all='ignore'):
        if mp == 'Conductivity':
            return m
        if mp == 'Resistivity':
            return 1.0/m
        if mp == 'LgConductivity':
            return np.exp(m*np.log(10.0))
        if mp == 'LgResistivity':
            return np.exp(-m*np.log(10.0))
        if mp == 'LnConductivity':
            return np.exp(m)
        return np.exp(-m)


def cases_model(tier):
    n = len(SELECTED)
    if tier == 'quick':
        triples = [(i, (i+3) % n, (i+7) % n) for i in range(n)]
    else:
        triples = [(i, (i+a) % n, (i+b) % n) for i in range(n)
                   for a, b in ((3, 7), (1, 2), (5, 10), (0, 0))]
    # grids that differ in exactly one direction only (same shape, same
    # origin, other widths): a shortcut for 'equal' grids must not fire
    triples += [(0, 0, 3), (0, 3, 0), (3, 0, 0), (0, 0, 0)]
    out = []
    for tr in triples:
        for case_ in zoo.CASES:
            for mu in (False, True):
                for eps in (False, True):
                    out.append({'pairs': tr, 'case': case_, 'mu_r': mu,
                                'eps_r': eps})
    return out


def case_model(c):
    import emg3d
    viol = []
    compared = 0
    gold, gnew = grids_3d(c['pairs'], 'q')
    on, nn_ = grid_nodes(gold), grid_nodes(gnew)
    so, sn = tuple(gold.shape_cells), tuple(gnew.shape_cells)
    case_ = c['case']
    sig = {'x': profile(so, 'rnd', 'x')}
    if case_ in ('HTI', 'triaxial'):
        sig['y'] = profile(so, 'rnd', 'y')
    if case_ in ('VTI', 'triaxial'):
        sig['z'] = profile(so, 'geo', 'z')
    extra = {}
    if c['mu_r']:
        extra['mu_r'] = zoo.cell_values(so, 'rnd', 'm', 0.5, 3.0)
    if c['eps_r']:
        extra['epsilon_r'] = zoo.cell_values(so, 'rnd', 'e', 1.0, 80.0)
    geo = {k: 10.0**volavg.apply_3d(on, nn_, np.log10(v))
           for k, v in {**sig, **extra}.items()}
    ari = {k: volavg.apply_3d(on, nn_, v) for k, v in extra.items()}
    # sameness decided from the node coordinates (not by emg3d's __eq__)
    same = all(len(a_) == len(b_) and np.array_equal(a_, b_)
               for a_, b_ in zip(on, nn_))
    modes = set()

    def bad(cls, what, obs=None, exp=None):
        viol.append({'cls': cls, 'what': what, 'observed': obs,
                     'expected': exp})

    with warnings.catch_warnings():
        warnings.simplefilter('ignore')
        for mp in zoo.MAPPINGS:
            kw = {'property_'+k: zoo.to_mapping(v, mp)
                  for k, v in sig.items()}
            model = emg3d.Model(gold, mapping=mp, **kw, **extra)
            keep = {k: v.copy() for k, v in kw.items()}
            try:
                with np.errstate(all='ignore'):
                    new = model.interpolate_to_grid(gnew)
            except Exception as e:  # noqa
                bad('interpolate-to-grid-raises',
                    f'{mp}/{case_}: {type(e).__name__}: {e}')
                continue
            if same:
                if new is not model:
                    bad('identical-grid-does-not-return-model', mp)
                continue
            gn2 = grid_nodes(new.grid)
            if (new.map.name != mp or new.case != case_ or
                    tuple(new.shape) != sn or not all(
                        len(a_) == len(b_) and np.allclose(a_, b_, rtol=1e-12)
                        for a_, b_ in zip(gn2, nn_))):
                bad('interpolated-model-has-wrong-structure',
                    f'{mp}/{case_}: {new!r}')
                continue
            for k, v in keep.items():
                if not np.array_equal(getattr(model, k), v):
                    bad('interpolate-to-grid-modifies-model', f'{mp}: {k}')
            for k in sig:
                got = _to_sigma(mp, getattr(new, 'property_'+k))
                with np.errstate(all='ignore'):
                    e = np.abs(got/geo[k] - 1.0)
                    e = np.where(np.isfinite(e), e, np.inf).max()
                compared += got.size
                if not e <= 1e-12:
                    bad('interpolated-conductivity-depends-on-mapping',
                        f'{mp}/{case_}: sigma_{k} on the new grid differs '
                        f'from the volume average of log(sigma) by {e:.2e} '
                        f'(relative); the log mode has to be chosen such '
                        f'that all six mappings give the same model',
                        got.ravel('F')[:4], geo[k].ravel('F')[:4])
            for k in extra:
                got = getattr(new, k)
                if got is None:
                    bad('interpolated-model-has-wrong-structure',
                        f'{mp}: {k} lost')
                    continue
                eg = np.abs(got/geo[k] - 1.0).max()
                ea = np.abs(got/ari[k] - 1.0).max()
                compared += got.size
                if eg <= 1e-12:
                    modes.add((k, _lin(mp), 'geometric'))
                elif ea <= 1e-12:
                    modes.add((k, _lin(mp), 'arithmetic'))
                else:
                    bad('interpolated-mu-eps-is-no-volume-average',
                        f'{mp}: {k} is neither the arithmetic ({ea:.2e}) nor '
                        f'the geometric ({eg:.2e}) volume average')
            # the documented defaults (method, log, extrapolate) can be
            # overridden: explicit linear mode for a linear mapping gives the
            # arithmetic volume average of the stored property
            if _lin(mp) and not same:
                try:
                    with np.errstate(all='ignore'):
                        lin = model.interpolate_to_grid(gnew, log=False)
                except Exception as e:  # noqa
                    bad('interpolate-to-grid-raises',
                        f'{mp}/{case_} log=False: {type(e).__name__}: {e}')
                    continue
                for k, v in keep.items():
                    want = volavg.apply_3d(on, nn_, v)
                    got = getattr(lin, k)
                    e = np.abs(got/want - 1.0).max()
                    compared += got.size
                    if not e <= 1e-12:
                        bad('explicit-linear-mode-not-honoured',
                            f'{mp}/{case_}: interpolate_to_grid(grid, '
                            f'log=False): {k} differs from the arithmetic '
                            f'volume average by {e:.2e} (relative)')
    return {'viol': viol, 'compared': compared, 'transitions': 6,
            'nontrivial': not same,
            'outcome': (case_, bool(c['mu_r']), bool(c['eps_r']), same,
                        tuple(sorted(modes)))}


# ------------------------------------------------------------------------ run

# -------------------------------------------- grids far away from the origin
FN_FAR = 'mc.checks.c15_volavg:case_far'
FAR_ORIGINS = ((500000.0, 6700000.0, -2000.0), (-3.3e6, 1.2e5, 7.7e4),
               (0.0, 0.0, 0.0))
FAR_UNITS = (2.0, 25.0, 100.0)
FAR_LATS = (((0, 1, 2, 3, 4), (1, 2, 3, 4, 5)),      # same widths, shifted
            ((0, 1, 2, 3, 4), (0, 1, 2, 3, 4)),      # equal
            ((0, 2, 4, 6), (1, 3, 5, 7)),            # same widths, shifted
            ((0, 1, 3, 6), (0, 2, 5, 6)),            # non-nested
            ((1, 2, 4, 5), (0, 3, 6)))               # overhang


def case_far(c):
    """Volume averaging depends on node DIFFERENCES only: the same pairs of
    grids (also pairs with identical widths shifted by one cell - which a
    tolerance relative to the coordinates mistakes for equal grids) at
    UTM-like origins give the reference result."""
    from emg3d import maps
    # the whole configuration (origin and widths) in other length units:
    # averaging weights are ratios of lengths and do not change
    scale = c.get('scale', 1.0)
    org = tuple(o*scale for o in FAR_ORIGINS[c['origin']])
    FAR_UNITS = tuple(u*scale for u in globals()['FAR_UNITS'])
    old = [org[d] + FAR_UNITS[d]*np.asarray(FAR_LATS[p][0], float)
           for d, p in enumerate(c['pairs'])]
    new = [org[d] + FAR_UNITS[d]*np.asarray(FAR_LATS[p][1], float)
           for d, p in enumerate(c['pairs'])]
    gold, gnew = mesh_from_nodes(old), mesh_from_nodes(new)
    # reference from the lattice coordinates (exact small integers)
    lo = [np.asarray(FAR_LATS[p][0], float) for p in c['pairs']]
    ln = [np.asarray(FAR_LATS[p][1], float) for p in c['pairs']]
    F = volavg.matrix_3d(lo, ln)
    so, sn = tuple(gold.shape_cells), tuple(gnew.shape_cells)
    vals = profile(so, 'rnd', ('far', tuple(c['pairs'])))
    viol, compared = [], 0
    tol = 1e-12 + 64*np.finfo(float).eps*max(
        abs(o)/u for o, u in zip(org, FAR_UNITS))
    for log in (False, True):
        with warnings.catch_warnings():
            warnings.simplefilter('ignore')
            got = maps.interpolate(gold, vals, gnew, method='volume',
                                   log=log)
        x = np.log10(vals) if log else vals
        want = (F @ x.ravel('F')).reshape(sn, order='F')
        want = 10**want if log else want
        compared += 1
        err = np.abs(got - want).max()/np.abs(want).max()
        if got.shape != sn or not err <= tol*(10 if log else 1):
            viol.append({
                'cls': 'volume-average-depends-on-absolute-position',
                'what': f'origin {org}, unit scale {scale}, lattice pairs '
                        f'{c["pairs"]}, log={log}: differs from the reference by {err:.2e}',
                'observed': got, 'expected': want})
    # the same through Model.interpolate_to_grid (which the solver uses to
    # bring the model to the computational grid)
    import emg3d
    with warnings.catch_warnings():
        warnings.simplefilter('ignore')
        m2 = emg3d.Model(gold, vals, mapping='Conductivity'
                         ).interpolate_to_grid(gnew)
    want = 10**(F @ np.log10(vals).ravel('F')).reshape(sn, order='F')
    compared += 1
    same_grid = [np.allclose(a, b, rtol=0, atol=1e-6*u) for a, b, u in zip(
        grid_nodes(m2.grid), new, FAR_UNITS)]
    if m2.property_x.shape != sn or not all(same_grid) or not np.abs(
            m2.property_x - want).max() <= 10*tol*np.abs(want).max():
        viol.append({
            'cls': 'model-interpolation-depends-on-absolute-position',
            'what': f'origin {org}, unit scale {scale}, lattice pairs '
                    f'{c["pairs"]}: Model.interpolate_to_grid does not return the volume '
                    'average on the new grid (result lives on the new grid: '
                    f'{all(same_grid)})'})
    return {'viol': viol, 'compared': compared, 'transitions': 3,
            'nontrivial': True, 'outcome': (c['origin'], scale, bool(viol))}


def cases_far(tier):
    n = len(FAR_LATS)
    return [{'origin': o, 'pairs': p, 'scale': s}
            for o in range(len(FAR_ORIGINS))
            for s in (1.0, 1.0471975512e-4, 1.0471975512e3)
            for p in itertools.product(range(n), repeat=3)]


# ----------------------------------- the adjoint routine, call after call
FN_ASEQ = 'mc.checks.c15_volavg:case_adjseq'
# new grids that share shape_cells AND origin AND extent but not the widths
ASEQ_NEW = ((0, 1, 3, 6), (0, 2, 5, 6), (0, 3, 4, 6), (0, 2, 4, 6))
ASEQ_OLD = (0, 1, 2, 3, 4, 5, 6)


def case_adjseq(c):
    """_interp_volume_average_adj is called for a SEQUENCE of computational
    grids (as Simulation.gradient does for source/frequency dependent
    grids); grids that agree in shape and origin but not in their widths must
    each get their own transposed averaging matrix."""
    old = [nodes_of(ASEQ_OLD, d) for d in range(3)]
    gold = mesh_from_nodes(old)
    viol, compared = [], 0
    for k, idx in enumerate(c['seq']):
        lat = [ASEQ_NEW[i] for i in idx]
        gnew = mesh_from_nodes([nodes_of(lat[d], d) for d in range(3)])
        with warnings.catch_warnings():
            warnings.simplefilter('ignore')
            M = dense_adjoint(gold, gnew)
        F = volavg.matrix_3d(old, grid_nodes(gnew))
        compared += 1
        if not np.all(np.isfinite(M)) or not np.abs(M - F).max() <= 1e-13:
            viol.append({
                'cls': 'adjoint-routine-depends-on-earlier-calls' if k else
                       'adjoint-routine-is-not-transpose-of-forward-map',
                'what': f'call {k+1} of the grid sequence {c["seq"]}: '
                        f'max |M - F_ref| = {np.nanmax(np.abs(M - F)):.2e}'})
            break
    return {'viol': viol, 'compared': compared, 'transitions': len(c['seq']),
            'nontrivial': len(c['seq']) > 1, 'outcome': (len(c['seq']),)}


def cases_adjseq(tier):
    n = len(ASEQ_NEW)
    tri = [(i, (i + 1) % n, (i + 2) % n) for i in range(n)] + \
        [(i, i, i) for i in range(n)]
    out = []
    for d in (2, 3):
        for seq in itertools.product(range(len(tri)), repeat=d):
            if tier == 'quick' and d == 3 and seq[0] > 1:
                continue
            out.append({'seq': [tri[i] for i in seq]})
    return out


# ------------------------------------------------- gradient back on the model
SIM_GRIDS = {
    # computational grids (widths per direction, origin) for a model grid of
    # 4x4x4 cells: same number of cells but other widths / origin, finer,
    # coarser and non-nested, overhanging
    'same-shape': ([[100., 115, 95, 120], [110., 126.5, 104.5, 132],
                    [105., 120.75, 99.75, 126]], (-215., -215., -400.)),
    'finer': ([[60., 55, 50, 50, 55, 60, 70, 80], [63., 58, 52, 52, 58, 63,
              73, 84], [57., 52, 48, 48, 52, 57, 66, 76]],
              (-240., -250., -410.)),
    'coarser': ([[150., 140, 160], [170., 150, 170], [140., 130, 140]],
                (-225., -240., -395.)),
    'equal-nodes': ([[120., 90, 100, 130], [132., 99, 110, 143],
                     [108., 81, 90, 117]], (-220., -230., -390.)),
}


def case_simgrad(c):
    """The gradient of a Simulation whose computational grid differs from
    the model grid equals F^T times the gradient obtained on the
    computational grid itself (Conductivity mapping: no chain-rule factor),
    F = reference volume-averaging matrix comp <- model; summed over all
    source-frequency pairs."""
    import emg3d
    from ..refmodel import adjoint
    h = [np.array([120., 90, 100, 130])*s_ for s_ in (1.0, 1.1, 0.9)]
    grid = emg3d.TensorMesh(h, origin=(-220., -230., -390.))
    model = zoo.model(grid, {'case': c['case'], 'prof': 'rnd',
                             'mapping': 'Conductivity'})
    hc, oc = SIM_GRIDS[c['grid']]
    gc = emg3d.TensorMesh([np.array(x) for x in hc], origin=oc)
    srcs = [emg3d.TxElectricDipole((-60., 20., -200., 30., 10.), length=15.,
                                   strength=1.5-0.5j),
            emg3d.TxElectricPoint((-10., -20., -185., -20., 70.))][:c['nsrc']]
    recs = [emg3d.RxElectricPoint((60., -40., -150., 20., 5.)),
            emg3d.RxMagneticPoint((40., 50., -180., -40., 10.))]
    freqs = [1.0, 2.0][:c['nfreq']]
    survey = emg3d.Survey(
        sources=emg3d.surveys.txrx_lists_to_dict(srcs),
        receivers=emg3d.surveys.txrx_lists_to_dict(recs), frequencies=freqs,
        noise_floor=1e-12, relative_error=0.05)
    r = zoo.rng('c15', 'obs')
    d = (r.standard_normal(survey.shape) +
         1j*r.standard_normal(survey.shape))*1e-10
    survey.data['observed'] = (survey.data.observed.dims, d)
    kw = dict(max_workers=1, receiver_interpolation='linear', tqdm_opts=False,
              verb=-1)
    viol = []
    with warnings.catch_warnings():
        warnings.simplefilter('ignore')
        with adjoint.exact_mode():
            sim1 = emg3d.Simulation(survey, model, gridding='input',
                                    gridding_opts=gc, **kw)
            g1 = np.array(sim1.gradient)
            mc = sim1.get_model(*sim1._srcfreq[0])
            sim2 = emg3d.Simulation(survey.copy(), mc, gridding='same', **kw)
            g2 = np.array(sim2.gradient)
    nb = {'isotropic': 1, 'VTI': 2, 'HTI': 2, 'triaxial': 3}[c['case']]
    F = volavg.matrix_3d([grid.nodes_x, grid.nodes_y, grid.nodes_z],
                         [gc.nodes_x, gc.nodes_y, gc.nodes_z])
    g1 = g1.reshape((nb, -1), order='F') if nb > 1 else g1.reshape(
        (1, -1), order='F')
    g2 = g2.reshape((nb, -1), order='F') if nb > 1 else g2.reshape(
        (1, -1), order='F')
    # misfits agree (same fields, same data) - otherwise the comparison
    # below would be meaningless
    m1, m2 = float(sim1.misfit), float(sim2.misfit)
    if not abs(m1 - m2) <= 1e-9*abs(m2):
        viol.append({'cls': 'simulation-on-computational-grid-differs',
                     'what': f'{c}: misfit {m1!r} on the model grid vs '
                             f'{m2!r} on the computational grid itself'})
    want = g2 @ F
    scale = np.abs(want).max()
    err = np.abs(g1 - want).max()/scale
    if not err <= 1e-9:
        viol.append({'cls': 'gradient-not-transposed-volume-average',
                     'what': f'{c}: gradient on the model grid differs from '
                             'F^T x (gradient on the computational grid): '
                             f'rel. {err:.2e}',
                     'observed': g1, 'expected': want})
    return {'viol': viol, 'compared': 2, 'transitions': 2,
            'nontrivial': bool(scale > 0),
            'outcome': (c['grid'], c['case'], err < 1e-12)}


def cases_simgrad(tier):
    out = []
    for gname in SIM_GRIDS:
        for case_ in ('isotropic', 'triaxial', 'VTI', 'HTI'):
            if tier == 'quick' and case_ in ('VTI', 'HTI') and \
                    gname != 'same-shape':
                continue
            for nsrc, nfreq in ((2, 1), (1, 2), (1, 1)):
                if tier == 'quick' and (nsrc, nfreq) == (1, 1):
                    continue
                out.append({'grid': gname, 'case': case_, 'nsrc': nsrc,
                            'nfreq': nfreq})
    return out


def prepare(ctx):
    """Import emg3d / compile the numba kernel once, in the parent."""
    import emg3d  # noqa
    volavg.selftest()
    # one call per array-layout signature of the numba kernel (single-cell
    # directions make arrays C- and F-contiguous at once)
    lats = (((0, 1, 3), (0, 2), (0, 2)), ((0, 1, 3), (0, 2, 3), (0, 2)))
    gs = [mesh_from_nodes([nodes_of(x, d) for d, x in enumerate(lat)])
          for lat in lats]
    for go in gs:
        for gn in gs:
            check_pair(go, gn, 'warm-up', [])


def run(ctx):
    prepare(ctx)
    ctx.assume(
        "1-D node sets are the subsets (>= 2 points) of an integer lattice "
        "{0..6} (thorough {0..8}), mapped to coordinates origin + unit*k with "
        "units (50, 0.7, 1900) in x, y, z; nested, shifted, scaled, "
        "overhanging and disjoint pairs all occur by construction",
        "true 3-D pairs are the full product of 12 (thorough 14, including "
        "12-cell half-step grids) selected 1-D pairs per direction",
        "values: unit basis (the complete matrix of the linear map, hence "
        "all values in linear mode), and two positive profiles over 1e-4 .. "
        "1e4 (deterministic 'geo' and seeded 'rnd') in linear and log mode "
        "(pairs3d: both; pairs1d: geo in x and z, rnd in y, thorough also "
        "rnd in x)",
        "tolerances: 1e-13 absolute on matrix entries (weights in [0, 1]), "
        "1e-12 relative on log-mode results and integrals",
        "Model.interpolate_to_grid: property_x/y/z must give the same "
        "conductivities in all six mappings (= volume average of log sigma); "
        "mu_r / epsilon_r are only required to be the arithmetic or the "
        "geometric volume average (emg3d uses the geometric one for linear "
        "and the arithmetic one for log mappings; the property does not fix "
        "this)")
    cap = ctx.budget or (400 if ctx.quick else 2400)
    if ctx.wants('pairs3d'):
        ctx.explore('pairs3d', FN_3D, cases_pairs3d(ctx.tier), engine='E1',
                    rule='full product of selected 1-D (old, new) pairs in x,'
                         ' y, z; per pair the full unit basis forward and the'
                         ' full basis through the adjoint routine; '
                         'non-trivial = grids differ', time_cap=cap)
    if ctx.wants('model'):
        ctx.explore('model', FN_MODEL, cases_model(ctx.tier), engine='E1',
                    rule='3-D grid pairs x 4 cases x mu_r x eps_r; per case '
                         'all six mappings through Model.interpolate_to_grid',
                    time_cap=cap)
    if ctx.wants('translated-pairs'):
        ctx.explore('translated-pairs', FN_FAR, cases_far(ctx.tier),
                    engine='E1',
                    rule='full product of 5 lattice pairs per direction '
                         '(equal, same widths shifted by one cell, '
                         'non-nested, overhang) at 3 origins (UTM-like, '
                         'large negative, zero) x unit scale {1, pi/3e-4, pi/3e3} (the '
                         'whole configuration in other length units); linear '
                         'and log mode vs the lattice reference',
                    time_cap=cap)
    if ctx.wants('adjoint-sequences'):
        ctx.explore('adjoint-sequences', FN_ASEQ, cases_adjseq(ctx.tier),
                    engine='E2',
                    rule='sequences (length 2, 3) of calls of the adjoint '
                         'routine for computational grids that share shape, '
                         'origin and extent but not their widths; full basis '
                         'per call vs the reference transpose',
                    time_cap=cap)
    if ctx.wants('simulation-gradient'):
        ctx.explore('simulation-gradient', FN_SIM, cases_simgrad(ctx.tier),
                    engine='E1',
                    rule='4 computational grids (same shape / finer / coarser '
                         '/ equal nodes) x anisotropy cases x (2 sources | 2 '
                         'frequencies | one pair): gradient of the real '
                         'Simulation (exact-solve mode) on the model grid = '
                         'F_ref^T x gradient on the computational grid',
                    time_cap=cap, chunksize=1)
    if ctx.wants('pairs1d'):
        ctx.explore('pairs1d', FN_1D, cases_pairs1d(ctx.tier), engine='E1',
                    rule='all ordered pairs of subsets (>= 2 points) of the '
                         'lattice, each in direction x, y and z of the 3-D '
                         'routine (passive directions: single cells inside / '
                         'overhanging); non-trivial = node sets differ',
                    time_cap=cap)
