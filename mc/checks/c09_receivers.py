"""C09 - receivers and point sources are exact transposes; reciprocity.

Engine E1 (bounded input enumeration against the real code), four
explorations:

``transpose``  per (stretched grid, azimuth, elevation): positions = full
    product of the per-axis coordinate alphabet {node, centre, 0.3 and 0.8 of
    a cell} over cells 1..n-2 (plus the closing node plane n-1).  The real
    ``fields.get_receiver(.., method='linear')`` is applied to the FULL edge
    basis (once with real unit fields, once with 1j*unit fields), giving the
    complete matrix R of the receiver functionals.  Identities checked
    (row-wise, relative to the largest weight of the row):

      E1  R == S,   S[p] = get_source_field(grid, TxElectricPoint(p),
                                             frequency=None).field
      E2  R == W,   W = the checker's own trilinear weights x rotation
      E3  R(1j*e_j) == 1j*R(e_j)  and  get_receiver(F, p) == sum(W[p]*F) for a
          complex F, called one receiver at a time (bilinear pairing, no
          conjugation)
      M1  for a model WITHOUT mu_r and f in {1 Hz, s=2 (Laplace)}:
          RH == SH/(-s mu0),  RH[p, j] = get_receiver(get_magnetic_field(
          model, e_j), p, 'linear'),  SH[p] = get_source_field(grid,
          TxMagneticPoint(p), f).field            (so  SH = -Cv^T P_f^T)
      M2  for every model (also with mu_r):  RH == P_f D Cv/(s mu0), the
          checker's face-trilinear weights P_f times the reference discrete
          Faraday law (Cv = reference edge curl, D = <V/mu_r>/<V> on faces).
          With mu_r != 1 the real TxMagneticPoint vector is NOT the transpose
          (documented: "not implemented for magnetic permeability"); this is
          counted, not reported.

``nan``  NaN policy, both 'linear' and 'cubic', electric and magnetic fields,
    one call with all receivers and one call per receiver: NaN iff some
    coordinate is < nodes[1] or > nodes[-2]; the shared node planes give a
    finite number.

``reciprocity-exact`` / ``reciprocity-real``  response matrices of all
    ordered pairs of 30 antennas (6 interior points x 5 orientations), E-E
    and H-H, several models: ``M[a, b] == M[b, a]``.  exact: direct solve of
    the reference operator with the REAL source vector, REAL receivers, 1e-8
    relative to the larger response (plus the a-posteriori rounding bound of
    the direct solve); real: the unmodified ``emg3d.solve`` (tol 1e-10), the
    difference must be covered by the rigorous a-posteriori bound
    ``|y_b| |r_a| + |y_a| |r_b|`` (r = true residual of the returned field,
    y = A^-1 receiver functional), which is proportional to the residual the
    solver reached.
"""
import itertools
import math
import warnings

import numpy as np
import scipy.sparse.linalg as spl
from scipy.constants import mu_0

from .. import zoo, impl
from ..refmodel import fit

FN_T = 'mc.checks.c09_receivers:case_transpose'
FN_N = 'mc.checks.c09_receivers:case_nan'
FN_R = 'mc.checks.c09_receivers:case_reciprocity'
FN_O = 'mc.checks.c09_receivers:case_orient'
FN_S = 'mc.checks.c09_receivers:case_hseq'

AZIMUTHS = (0.0, 90.0, 180.0, -90.0, 45.0, -135.0)
ELEVATIONS = (0.0, 90.0, -90.0, 30.0, -35.0)
FRACS_Q = (0.0, 0.5, 0.3)          # node, centre, generic (DESIGN 1.3)
FRACS_T = (0.0, 0.5, 0.3, 0.8)     # + a generic point of the upper half

GRIDS_Q = ({'shape': (4, 5, 4), 'w': ('geo', 'alt', 'rnd')},
           {'shape': (5, 4, 6), 'w': ('rnd', 'geor', 'alt')})
GRIDS_T = GRIDS_Q + ({'shape': (6, 5, 4), 'w': ('alt', 'rnd', 'geo')},
                     {'shape': (4, 4, 7), 'w': ('geor', 'rnd', 'rnd')},
                     {'shape': (3, 3, 3), 'w': ('rnd', 'alt', 'geo')},
                     {'shape': (4, 4, 4), 'w': ('uni', 'uni', 'uni')})

# models of the magnetic identities: (spec, compare with real source?)
MODELS_M = ({'case': 'triaxial', 'prof': 'rnd'},
            {'case': 'isotropic', 'prof': 'rnd', 'mu_r': True})
MODELS_M_T = MODELS_M + ({'case': 'isotropic', 'prof': 'hom'},
                         {'case': 'VTI', 'prof': 'lay', 'eps_r': True},
                         {'case': 'HTI', 'prof': 'hom', 'mu_r': True})
FREQS = (1.0, -2.0)

TOL_E = 1e-13          # electric transpose identity (observed: 0 .. 2e-16)
TOL_M = 1e-12          # magnetic (observed: <= 2e-14)


# --------------------------------------------------------------------------
# reference: rotation, 1-D hat weights, trilinear functionals on edges/faces

def rot_ref(az, el):
    a, e = math.radians(az), math.radians(el)
    return np.array([math.cos(a)*math.cos(e), math.sin(a)*math.cos(e),
                     math.sin(e)])


def hat(p, c):
    """Weights of piecewise-linear interpolation at c on the 1-D points p."""
    w = np.zeros(len(p))
    i = int(np.searchsorted(p, c, side='right')) - 1
    i = min(max(i, 0), len(p)-2)
    t = (c - p[i])/(p[i+1] - p[i])
    w[i] = 1.0 - t
    w[i+1] = t
    return w


def _pts(grid, electric):
    n_ = (grid.nodes_x, grid.nodes_y, grid.nodes_z)
    c_ = (grid.cell_centers_x, grid.cell_centers_y, grid.cell_centers_z)
    out = []
    for d in range(3):
        if electric:      # edge d: centred along d, nodal across
            out.append([c_[k] if k == d else n_[k] for k in range(3)])
        else:             # face d: nodal along d, centred across
            out.append([n_[k] if k == d else c_[k] for k in range(3)])
    return out


class Trilinear:
    """Reference point functionals of a grid (rows for given positions)."""

    def __init__(self, grid, electric=True):
        self.pts = _pts(grid, electric)
        self.cache = {}

    def hat(self, d, k, c):
        key = (d, k, c)
        if key not in self.cache:
            self.cache[key] = hat(self.pts[d][k], c)
        return self.cache[key]

    def row(self, pos, rot):
        out = []
        for d in range(3):
            wx, wy, wz = (self.hat(d, k, pos[k]) for k in range(3))
            w = rot[d]*(wx[:, None, None]*wy[None, :, None]*wz[None, None, :])
            out.append(w.ravel('F'))
        return np.concatenate(out)


def axis_interior(nodes, centres, fracs):
    """Coordinate alphabet of one axis over cells 1..n-2 (+ closing node)."""
    n = len(centres)
    out = []
    for i in range(1, n-1):
        h = nodes[i+1] - nodes[i]
        for fr in fracs:
            if fr == 0.0:
                out.append(float(nodes[i]))
            elif fr == 0.5:
                out.append(float(centres[i]))
            else:
                out.append(float(nodes[i] + fr*h))
    out.append(float(nodes[n-1]))
    return out


def interior_positions(grid, fracs):
    ax = [axis_interior(grid.nodes_x, grid.cell_centers_x, fracs),
          axis_interior(grid.nodes_y, grid.cell_centers_y, fracs),
          axis_interior(grid.nodes_z, grid.cell_centers_z, fracs)]
    return np.array(list(itertools.product(*ax)))


def faraday_ref(grid, model, sval):
    """Reference map edge values -> H on faces: D Cv / (s mu0)."""
    import scipy.sparse as sp
    h = [np.asarray(x, float) for x in grid.h]
    n = [len(x) for x in h]
    Cv = sp.diags(1.0/fit.face_areas(h)) @ fit.curl_incidence(n) @ \
        sp.diags(fit.edge_lengths(h))
    D = fit.face_mass(h, model.mu_r)/fit.face_mass(h, None)
    return (sp.diags(D/(sval*mu_0)) @ Cv).tocsr()


def lg(x):
    """floor(log10 x) clipped to [-17, 99] (99: not finite)."""
    if not np.isfinite(x):
        return 99
    return int(max(-17, math.floor(math.log10(x)))) if x > 0 else -17


def rowerr(X, Y):
    """max over rows of max|X-Y| / max|Y| ; (value, row, col)."""
    sc = np.abs(Y).max(axis=1)
    sc = np.where(sc > 0, sc, 1.0)
    with np.errstate(invalid='ignore'):
        d = np.abs(X - Y)/sc[:, None]
    d = np.where(np.isnan(d), np.inf, d)
    i, j = np.unravel_index(np.argmax(d), d.shape)
    return float(d[i, j]), int(i), int(j)


def _rx(field, P, az, el, method='linear'):
    from emg3d import fields
    with warnings.catch_warnings():
        warnings.simplefilter('ignore')
        with np.errstate(all='ignore'):
            return np.asarray(fields.get_receiver(
                field, (P[:, 0], P[:, 1], P[:, 2], az, el), method))


def _rx1(field, p, az, el, method='linear'):
    from emg3d import fields
    with warnings.catch_warnings():
        warnings.simplefilter('ignore')
        with np.errstate(all='ignore'):
            return complex(np.asarray(fields.get_receiver(
                field, (p[0], p[1], p[2], az, el), method)).ravel()[0])


# --------------------------------------------------------------------------
# (a) (b) (c): transpose identities on the full edge basis

def case_transpose(c):
    import emg3d
    grid = zoo.mesh(c['grid'])
    az, el = c['az'], c['el']
    N = grid.n_edges
    P = interior_positions(grid, c['fracs'])
    if c.get('mixed'):          # one call with all angle pairs at once
        ang = np.array(list(itertools.product(AZIMUTHS, ELEVATIONS)))
        P = P[::c['mixed']]
        PA = np.repeat(P, len(ang), axis=0)
        AZ = np.tile(ang[:, 0], len(P))
        EL = np.tile(ang[:, 1], len(P))
    else:
        PA, AZ, EL = P, np.full(len(P), az), np.full(len(P), el)
    nrec = len(PA)
    azel = (AZ, EL) if c.get('mixed') else (az, el)
    # interpolation weights are ratios of coordinate differences: their
    # rounding error grows with |coordinate| / width (grids far from the
    # origin)
    far = 64*np.finfo(float).eps*max(
        np.abs(x).max()/np.diff(x).min()
        for x in (grid.nodes_x, grid.nodes_y, grid.nodes_z))
    TOL_E, TOL_M = max(1e-13, far), max(1e-12, far)
    viol = []
    compared = 0
    cnt = {'pairs': nrec}

    def where(i, j=None):
        s = (f"pos=({float(PA[i, 0])!r},{float(PA[i, 1])!r},"
             f"{float(PA[i, 2])!r}) az={AZ[i]} el={EL[i]}")
        return s if j is None else s + f" edge={j}"

    # receivers name their adjoint source class (used by the gradient)
    adj = (getattr(emg3d.RxElectricPoint, '_adjoint_source', None),
           getattr(emg3d.RxMagneticPoint, '_adjoint_source', None))
    if adj != (emg3d.TxElectricPoint, emg3d.TxMagneticPoint):
        viol.append({'cls': 'receiver-adjoint-source-class-wrong',
                     'what': 'Rx{Electric,Magnetic}Point._adjoint_source is '
                     'not Tx{Electric,Magnetic}Point', 'observed': repr(adj)})
    # reference rows and real source vectors
    tri = Trilinear(grid, True)
    W = np.empty((nrec, N))
    S = np.empty((nrec, N))
    for i in range(nrec):
        W[i] = tri.row(PA[i], rot_ref(AZ[i], EL[i]))
        src = emg3d.TxElectricPoint((*PA[i], AZ[i], EL[i]))
        S[i] = emg3d.get_source_field(grid, src, frequency=None).field
    # real receiver functional on the full basis (real and imaginary units)
    R = np.empty((nrec, N))
    Rc = np.empty((nrec, N), dtype=complex)
    fr = emg3d.Field(grid, dtype=np.float64)
    fc = emg3d.Field(grid, dtype=np.complex128)
    for j in range(N):
        fr.field[:] = 0
        fr.field[j] = 1.0
        R[:, j] = _rx(fr, PA, *azel)
        fc.field[:] = 0
        fc.field[j] = 1j
        Rc[:, j] = _rx(fc, PA, *azel)
    supp = (np.abs(W) > 0).sum(axis=1)
    calls = 2*N + 2*nrec
    bad = np.flatnonzero(~np.isfinite(R).all(axis=1))
    if bad.size:
        viol.append({'cls': 'nan-for-receiver-inside-second-to-second-last'
                     '-cell', 'what': f'{bad.size} of {nrec} interior '
                     'receivers are not finite for unit fields; first: '
                     + where(bad[0])})

    def cmp(X, Y, tol, cls, text):
        nonlocal compared
        compared += X.shape[0]
        e, i, j = rowerr(X, Y)
        if not e <= tol:
            viol.append({'cls': cls, 'what': f'{text}: rel. error {e:.2e} at '
                         + where(i, j), 'observed': X[i, j],
                         'expected': Y[i, j]})
        return e

    eS = cmp(R, S, TOL_E, 'electric-receiver-differs-from-point-source',
             'get_receiver(unit edge field) vs TxElectricPoint vector')
    eW = cmp(R, W, TOL_E, 'electric-receiver-differs-from-trilinear',
             'get_receiver(unit edge field) vs reference trilinear weight')
    cmp(S, W, TOL_E, 'electric-point-source-differs-from-trilinear',
        'TxElectricPoint vector vs reference trilinear weight')
    cmp(Rc, 1j*R, TOL_E, 'receiver-not-complex-linear',
        'get_receiver(1j*unit field) vs 1j*get_receiver(unit field)')
    # Rx instances / list of Rx instances / Field method take the same path
    k = min(7, nrec)
    rxs = [emg3d.RxElectricPoint((*PA[i], AZ[i], EL[i])) for i in range(k)]
    F = emg3d.Field(grid, zoo.random_field(grid, 'c09', complex, pec=False))
    with np.errstate(all='ignore'):
        rl = np.asarray(F.get_receiver(rxs, 'linear'))
        r1 = complex(np.asarray(emg3d.fields.get_receiver(
            F, rxs[-1], 'linear')).ravel()[0])
    ex = _rx(F, PA[:k], AZ[:k], EL[:k])       # same receivers as a tuple
    compared += k + 1
    rl1 = np.append(rl, r1)
    ex1 = np.append(ex, ex[-1])
    fin = np.isfinite(ex1)
    same = (np.array_equal(np.isfinite(rl1), fin) and (not fin.any() or np.abs(
        rl1[fin] - ex1[fin]).max() <= 1e-13*np.abs(F.field).max()))
    if not same:
        viol.append({'cls': 'receiver-instances-differ-from-tuple',
                     'what': 'get_receiver(list of Rx instances / one Rx '
                     'instance) vs get_receiver(tuple of coordinates)',
                     'observed': rl, 'expected': ex})
    # (c) one receiver per call, complex field: bilinear pairing
    nconj = 0
    if not c.get('mixed'):
        bil = W @ F.field
        ses = W @ F.field.conj()
        sc = np.abs(F.field).max()
        one = np.array([_rx1(F, PA[i], az, el) for i in range(nrec)])
        calls += nrec
        compared += nrec
        err = np.abs(one - bil)/sc
        i = int(np.argmax(np.where(np.isnan(err), np.inf, err)))
        if not err[i] <= 1e-12:
            conj = abs(one[i] - ses[i])/sc <= 1e-12
            nconj = int(conj)
            viol.append({'cls': 'receiver-conjugates-field' if conj else
                         'single-receiver-differs-from-pairing',
                         'what': 'get_receiver(complex field, one receiver) '
                         f'vs sum(w*F): {err[i]:.2e} at ' + where(i),
                         'observed': one[i], 'expected': bil[i]})

    # (b) magnetic
    eM = 0.0
    murdiff = 0
    if not c.get('mixed') or c.get('mixed_magnetic'):
        trif = Trilinear(grid, False)
        PF = np.array([trif.row(PA[i], rot_ref(AZ[i], EL[i]))
                       for i in range(nrec)])
        SH = {}
        calls += nrec*len(c['freqs'])
        for freq in c['freqs']:
            SH[freq] = np.array([emg3d.get_source_field(
                grid, emg3d.TxMagneticPoint((*PA[i], AZ[i], EL[i])),
                frequency=freq).field for i in range(nrec)])
        for im_, ms in enumerate(c['models']):
            model = zoo.model(grid, ms)
            for freq in c['freqs']:
                sval = zoo.sval_of(freq)
                e = emg3d.Field(grid, frequency=freq)
                RH = np.empty((nrec, N), dtype=e.field.dtype)
                units = (1.0, 1j) if (freq > 0 and im_ < c['imag']) else (1.0,)
                calls += 2*N*len(units)
                for u in units:
                    for j in range(N):
                        e.field[:] = 0
                        e.field[j] = u
                        hf = emg3d.get_magnetic_field(model, e)
                        RH[:, j] = _rx(hf, PA, *azel)
                    if u == 1.0:
                        RH1 = RH.copy()
                    else:
                        cmp(RH, 1j*RH1, TOL_M,
                            'magnetic-receiver-not-complex-linear',
                            'H receiver of 1j*unit field vs 1j*(unit field)')
                RH = RH1
                WH = (faraday_ref(grid, model, sval).T @ PF.T).T
                if np.iscomplexobj(WH) and not np.iscomplexobj(RH):
                    WH = WH.real
                tag = f"model={ms} f={freq}"
                e2 = cmp(RH, WH, TOL_M,
                         'magnetic-receiver-differs-from-reference-faraday',
                         'get_receiver(get_magnetic_field(unit edge field)) '
                         'vs reference P_f D Cv/(s mu0), ' + tag)
                ST = SH[freq]/(-sval*mu_0)
                if np.iscomplexobj(ST) and not np.iscomplexobj(RH):
                    ST = ST.real
                if not ms.get('mu_r'):
                    e1 = cmp(RH, ST, TOL_M,
                             'magnetic-receiver-differs-from-point-source',
                             'get_receiver(get_magnetic_field(unit edge '
                             'field)) vs TxMagneticPoint field/(-s mu0), '
                             + tag)
                    eM = max(eM, e1)
                else:
                    e1, _, _ = rowerr(RH, ST)
                    murdiff += int(e1 > TOL_M)
                eM = max(eM, e2)
        cnt['magnetic_maps'] = len(c['models'])*len(c['freqs'])
        cnt['mu_r_models_where_real_magnetic_source_is_not_the_transpose'] \
            = murdiff

    return {'viol': viol, 'compared': compared,
            'transitions': calls,
            'nontrivial': bool(nrec > 0 and supp.max() > 1),
            'outcome': (tuple(sorted(set(supp.tolist()))), lg(max(eS, eW)),
                        lg(eM), nconj),
            'count': cnt}


# --------------------------------------------------------------------------
# (d) NaN policy

def axis_nan(nodes, centres):
    """[(coordinate, finite expected?)] for one axis."""
    n = len(centres)
    h = np.diff(nodes)
    up, dn = np.inf, -np.inf
    out = [(nodes[0] - 0.3*h[0], False), (nodes[0], False),
           (centres[0], False), (np.nextafter(nodes[1], dn), False),
           (nodes[1], True), (np.nextafter(nodes[1], up), True),
           (centres[1], True)]
    if n > 3:
        out.append((nodes[2] + 0.3*h[2] if n > 4 else nodes[2], True))
    out += [(np.nextafter(nodes[n-1], dn), True), (nodes[n-1], True),
            (np.nextafter(nodes[n-1], up), False), (centres[n-1], False),
            (nodes[n], False), (nodes[n] + 1e3*h[n-1], False)]
    return [(float(a), b) for a, b in out]


def case_nan(c):
    import emg3d
    grid = zoo.mesh(c['grid'])
    method, az, el = c['method'], c['az'], c['el']
    ax = [axis_nan(grid.nodes_x, grid.cell_centers_x),
          axis_nan(grid.nodes_y, grid.cell_centers_y),
          axis_nan(grid.nodes_z, grid.cell_centers_z)]
    prod = list(itertools.product(*ax))
    P = np.array([[a[0] for a in p] for p in prod])
    ok = np.array([all(a[1] for a in p) for p in prod])
    if c['electric']:
        F = emg3d.Field(grid, zoo.random_field(grid, 'nan', complex,
                                               pec=False))
    else:
        r = zoo.rng('nanH', tuple(grid.shape_cells))
        F = emg3d.Field(grid, r.standard_normal(grid.n_faces) +
                        1j*r.standard_normal(grid.n_faces), electric=False)
    viol = []
    batch = _rx(F, P, az, el, method)
    step = c.get('single_step', 1)
    idx = np.arange(0, len(P), step)
    single = np.array([_rx1(F, P[i], az, el, method) for i in idx])

    def judge(vals, index, how):
        fin = np.isfinite(vals)
        nan = np.isnan(vals)
        bad_num = np.flatnonzero(~ok[index] & ~nan)
        bad_nan = np.flatnonzero(ok[index] & ~fin)
        for bad, cls, txt in (
                (bad_num, 'number-for-receiver-in-outermost-cell-or-outside',
                 'expected NaN'),
                (bad_nan, 'nan-for-receiver-inside-second-to-second-last-cell',
                 'expected a finite number')):
            if bad.size:
                i = index[bad[0]]
                viol.append({
                    'cls': cls + ('' if method == 'linear' else '-cubic'),
                    'what': f'{how}, method={method}, electric='
                    f'{c["electric"]}: {bad.size} positions, first pos='
                    f'({float(P[i, 0])!r},{float(P[i, 1])!r},'
                    f'{float(P[i, 2])!r}) az={az} el={el}; '
                    + txt, 'observed': vals[bad[0]]})
    judge(batch, np.arange(len(P)), 'one call with all receivers')
    judge(single, idx, 'one receiver per call')
    # a batch must give what single calls give (no leaking between receivers)
    both = np.isfinite(batch[idx]) & np.isfinite(single)
    if both.any():
        sc = np.abs(F.field).max()
        d = np.abs(batch[idx][both] - single[both]).max()/sc
        if not d <= 1e-12:
            viol.append({'cls': 'batch-differs-from-single-receiver',
                         'what': f'method={method}: {d:.2e}'})
    nfin = int(np.isfinite(batch).sum())
    return {'viol': viol, 'compared': len(P) + len(idx),
            'transitions': len(P) + len(idx),
            'nontrivial': bool(0 < nfin < len(P)),
            'outcome': (method, bool(c['electric']), nfin,
                        int(np.isnan(batch).sum()),
                        int(np.isfinite(single).sum())),
            'count': {'positions': len(P), 'expected_nan': int((~ok).sum()),
                      'expected_finite': int(ok.sum())}}


# --------------------------------------------------------------------------
# (e) reciprocity

ORIENT = ((0.0, 0.0), (90.0, 0.0), (0.0, 90.0), (45.0, 30.0), (-135.0, -35.0))


def antennas(grid, npts, norient, inset=1):
    """Interior points (cells inset..n-1-inset, mixed node / centre /
    generic coordinates, different cells) x orientations."""
    nx, ny, nz = grid.shape_cells
    X, Y, Z = grid.nodes_x, grid.nodes_y, grid.nodes_z
    hx, hy, hz = grid.h

    def co(nodes, h, n, cell, fr):
        cell = inset + cell % (n-2*inset)
        return float(nodes[cell] + fr*h[cell])
    spec = [((0, .3), (0, .5), (0, .0)), ((1, .0), (2, .3), (1, .5)),
            ((2, .5), (1, .0), (3, .3)), ((3, .8), (3, .5), (2, .0)),
            ((4, .3), (0, .3), (1, .8)), ((5, .0), (1, .0), (4, .0))]
    pts = [(co(X, hx, nx, *a), co(Y, hy, ny, *b), co(Z, hz, nz, *d))
           for a, b, d in spec[:npts]]
    return [(*p, *o) for p in pts for o in ORIENT[:norient]]


def case_reciprocity(c):
    import emg3d
    grid = zoo.mesh(c['grid'])
    n = tuple(grid.shape_cells)
    model = zoo.model(grid, c['model'])
    freq, kind, mode = c['freq'], c['kind'], c['mode']
    sval = zoo.sval_of(freq)
    ants = antennas(grid, c['npts'], c['norient'], c.get('inset', 1))
    na = len(ants)
    A = fit.assemble_for(model, sval).tocsr()
    im = fit.interior_mask(n)
    iidx = np.flatnonzero(im)
    lu = spl.splu(A[iidx][:, iidx].tocsc())

    def direct(rhs):        # == fit.solve_direct(A, rhs, n), LU factored once
        x = np.zeros(A.shape[0], dtype=np.result_type(A.dtype, rhs.dtype))
        x[iidx] = lu.solve(np.asarray(rhs)[iidx].astype(x.dtype))
        return x
    Tx = emg3d.TxElectricPoint if kind == 'ee' else emg3d.TxMagneticPoint
    # reference receiver functionals (for the a-posteriori bound only)
    if kind == 'ee':
        tri = Trilinear(grid, True)
        G = np.array([tri.row(a[:3], rot_ref(a[3], a[4])) for a in ants])
    else:
        tri = Trilinear(grid, False)
        PF = np.array([tri.row(a[:3], rot_ref(a[3], a[4])) for a in ants])
        G = (faraday_ref(grid, model, sval).T @ PF.T).T
    dt = complex if freq > 0 else float
    M = np.zeros((na, na), dtype=dt)
    rn = np.zeros(na)           # |true residual of the field of source a|
    yn = np.zeros(na)           # |A^-1 g_b|
    inconclusive = 0
    resid_high = 0
    okrow = np.ones(na, dtype=bool)
    its = 0
    for a, co in enumerate(ants):
        sf = emg3d.get_source_field(grid, Tx(co), frequency=freq)
        if mode == 'exact':
            x = direct(sf.field)
            if dt is float:
                x = x.real
            ef = emg3d.Field(grid, x.astype(dt), frequency=freq)
        else:
            with warnings.catch_warnings():
                warnings.simplefilter('ignore')
                ef, info = emg3d.solve(
                    model, sf, sslsolver=True, tol=c['tol'], verb=-1,
                    return_info=True)
            its += info['it_mg']
            if info['exit'] != 0 or not np.all(np.isfinite(ef.field)):
                inconclusive += 1
                okrow[a] = False
                continue
        r = (sf.field - A @ ef.field)[im]
        rn[a] = np.linalg.norm(r)
        if mode == 'real' and not rn[a] <= 10*c['tol']*np.linalg.norm(
                sf.field[im]):
            # "converged" but not a solution of the reference system: that
            # is C01/C02's business; here the pair cannot be judged
            resid_high += 1
            okrow[a] = False
            continue
        y = direct(G[a].astype(A.dtype))
        yn[a] = np.linalg.norm(y)
        f = ef if kind == 'ee' else emg3d.get_magnetic_field(model, ef)
        # each receiver evaluated by its own call (as a survey would)
        for b in range(na):
            M[a, b] = _rx1(f, ants[b][:3], ants[b][3], ants[b][4]) \
                if dt is complex else \
                _rx1(f, ants[b][:3], ants[b][3], ants[b][4]).real
    viol = []
    compared = 0
    worst = 0.0
    worst_tol = 0.0
    nontriv = 0
    hits = 0
    scale = np.abs(M[okrow][:, okrow]).max() if okrow.any() else 0.0
    for a in range(na):
        for b in range(a+1, na):
            if not (okrow[a] and okrow[b]):
                continue
            compared += 2           # ordered pairs (a,b) and (b,a)
            big = max(abs(M[a, b]), abs(M[b, a]))
            d = abs(M[a, b] - M[b, a])
            bound = yn[b]*rn[a] + yn[a]*rn[b]
            if mode == 'exact':
                thr = 1e-8*big + 4*bound + 1e-12*scale
            else:
                thr = 1e-8*big + 1.05*bound + 1e-12*scale
            if big > 1e-6*scale:
                nontriv += 1
                worst = max(worst, d/big)
            if not d <= thr:
                hits += 1
                if hits <= 3:
                    viol.append({
                        'cls': f'reciprocity-violated-{kind}-{mode}',
                        'what': f'resp(A->B) != resp(B->A): |diff| {d:.3e}, '
                        f'larger |resp| {big:.3e}, allowed {thr:.3e}; '
                        f'A={ants[a]} B={ants[b]}',
                        'observed': [M[a, b], M[b, a]]})
            if bound > 0:
                worst_tol = max(worst_tol, d/bound)
    if not np.all(np.isfinite(M[okrow][:, okrow])):
        viol.append({'cls': 'nan-response-at-interior-receiver',
                     'what': 'non-finite response for an interior receiver'})

    return {'viol': viol, 'compared': compared, 'transitions': na,
            'nontrivial': nontriv > 0,
            'outcome': (kind, mode, lg(worst), inconclusive + resid_high),
            'count': {'ordered_pairs': compared,
                      'pairs_with_significant_response': nontriv,
                      'inconclusive_unconverged_solves': inconclusive,
                      'inconclusive_residual_above_10tol': resid_high,
                      'solves': na, 'mg_iterations': its},
            'worst_rel': worst, 'worst_over_bound': worst_tol}


# --------------------------------------------------------------------------

def transpose_cases(tier):
    grids = GRIDS_Q if tier == 'quick' else GRIDS_T
    models = MODELS_M if tier == 'quick' else MODELS_M_T
    q = tier == 'quick'
    fracs = list(FRACS_Q if q else FRACS_T)
    out = []
    for g in grids:
        out.append({'grid': g, 'az': None, 'el': None, 'fracs': fracs,
                    'mixed': 5 if q else 12, 'mixed_magnetic': False,
                    'models': list(models[:1]), 'freqs': [1.0], 'imag': 0})
    # the same functionals on a grid far from the origin with small cells
    # (UTM-like coordinates): everything depends on positions relative to
    # the nodes only
    gfar = {'shape': (4, 5, 4), 'w': ('geo', 'alt', 'rnd'), 'unit': 2.0,
            'origin': (512000.0, 6704000.25, -2000.0)}
    for az, el in ((0.0, 0.0), (90.0, 0.0), (45.0, 30.0), (-135.0, -35.0),
                   (0.0, 90.0)):
        out.append({'grid': gfar, 'az': az, 'el': el, 'fracs': fracs,
                    'models': list(models[:1]), 'freqs': [1.0], 'imag': 0})
    for ia, az in enumerate(AZIMUTHS):
        for ie, el in enumerate(ELEVATIONS):
            for g in grids:
                # quick: the Laplace-domain (real s) magnetic map for every
                # third angle pair only (the magnetic source is costly)
                fr = FREQS if (not q or (ia + ie) % 3 == 0) else FREQS[:1]
                out.append({'grid': g, 'az': az, 'el': el, 'fracs': fracs,
                            'models': list(models), 'freqs': list(fr),
                            'imag': 1 if q else len(models)})
    return out


def nan_cases(tier):
    grids = GRIDS_Q if tier == 'quick' else GRIDS_T[:4]
    angles = ((0.0, 0.0), (90.0, 0.0), (0.0, 90.0), (45.0, 30.0),
              (-135.0, -35.0), (180.0, -90.0))
    out = []
    for g in grids:
        for method in ('linear', 'cubic'):
            for electric in (True, False):
                for az, el in angles:
                    out.append({'grid': g, 'method': method, 'az': az,
                                'el': el, 'electric': electric,
                                'single_step': 4 if tier == 'quick' else 1})
    return out


RGRIDS = ({'shape': (5, 4, 6), 'w': ('rnd', 'geor', 'alt')},
          {'shape': (8, 6, 8), 'w': ('geo', 'alt', 'rnd')})
RMODELS = {'ee': ({'case': 'isotropic', 'prof': 'hom'},
                  {'case': 'triaxial', 'prof': 'rnd'},
                  {'case': 'VTI', 'prof': 'rnd', 'mu_r': True}),
           'hh': ({'case': 'isotropic', 'prof': 'hom'},
                  {'case': 'triaxial', 'prof': 'rnd'},
                  {'case': 'HTI', 'prof': 'lay', 'eps_r': True})}


def reciprocity_cases(tier, mode):
    out = []
    if mode == 'exact':
        grids = RGRIDS if tier == 'quick' else RGRIDS + (
            {'shape': (4, 5, 4), 'w': ('geo', 'alt', 'rnd')},
            {'shape': (7, 6, 5), 'w': ('alt', 'rnd', 'geo')})
    else:
        grids = RGRIDS[1:] if tier == 'quick' else RGRIDS[1:] + (
            {'shape': (8, 8, 8), 'w': ('rnd', 'geo', 'alt')},
            {'shape': (12, 8, 6), 'w': ('geo', 'geor', 'rnd')})
    for g in grids:
        for kind in ('ee', 'hh'):
            for m in RMODELS[kind]:
                for f in FREQS:
                    out.append({'grid': g, 'model': m, 'freq': f,
                                'kind': kind, 'mode': mode, 'npts': 6,
                                'norient': 5, 'tol': 1e-10,
                                'inset': 1 if mode == 'exact' else 2})
    return out


# --------------------------------------------------------------------------
# one call with several receivers of different orientation

def orient_sets(tier):
    """Orientation combinations sampled together in ONE get_receiver call:
    all unordered pairs of the 30 (azimuth, elevation) pairs, all triples of
    the 14 axis-aligned / axis-perpendicular ones (thorough: of all 30), and
    per Cartesian component the sets of all orientations whose factor for
    that component is <= 0 (>= 0)."""
    ang = list(itertools.product(AZIMUTHS, ELEVATIONS))
    idx = range(len(ang))
    sets = [(i, j) for i, j in itertools.combinations(idx, 2)]
    axis = [i for i in idx if sum(abs(x) < 1e-12 for x in
                                  rot_ref(*ang[i])) >= 1]
    pool = list(idx) if tier == 'thorough' else axis
    sets += list(itertools.combinations(pool, 3))
    for d in range(3):
        for sg in (1, -1):
            sets.append(tuple(i for i in idx
                              if sg*rot_ref(*ang[i])[d] <= 1e-12))
    return ang, sets


def case_orient(c):
    """Every receiver of a multi-receiver call gets the value of the linear
    functional of its own position and orientation (reference trilinear
    weights), electric and magnetic, whatever the other receivers of the same
    call look like."""
    import emg3d
    grid = zoo.mesh(c['grid'])
    ang, sets = orient_sets(c['tier'])
    sets = sets[c['lo']:c['hi']]
    P = interior_positions(grid, FRACS_Q)
    pos = P[[1, len(P)//2, len(P) - 2]]
    F = emg3d.Field(grid, zoo.random_field(grid, 'c09o', complex, pec=True),
                    frequency=1.0)
    model = zoo.model(grid, {'case': 'triaxial', 'prof': 'rnd'})
    H = emg3d.get_magnetic_field(model, F)
    tri_e, tri_h = Trilinear(grid, True), Trilinear(grid, False)
    sc_e, sc_h = np.abs(F.field).max(), np.abs(H.field).max()
    viol, compared = [], 0
    for st in sets:
        AZ = np.array([ang[i][0] for i in st for _ in pos])
        EL = np.array([ang[i][1] for i in st for _ in pos])
        PA = np.array([p for _ in st for p in pos])
        for fld, tri, sc, kind in ((F, tri_e, sc_e, 'electric'),
                                   (H, tri_h, sc_h, 'magnetic')):
            got = _rx(fld, PA, AZ, EL)
            want = np.array([tri.row(PA[i], rot_ref(AZ[i], EL[i])) @
                             fld.field for i in range(len(PA))])
            compared += len(PA)
            err = np.abs(got - want)/sc
            k = int(np.argmax(np.where(np.isnan(err), np.inf, err)))
            if not err[k] <= 1e-12:
                viol.append({
                    'cls': f'{kind}-receiver-in-mixed-orientation-call-'
                           'differs-from-its-functional',
                    'what': f'orientations {[ang[i] for i in st]} in one '
                            f'call: receiver {k} (az={AZ[k]}, el={EL[k]}) '
                            f'off by {err[k]:.2e} of the field scale',
                    'observed': got, 'expected': want})
                if len(viol) > 6:
                    break
        if len(viol) > 6:
            break
    # receivers given as 2-D (and 3-D) coordinate ARRAYS (an acquisition
    # patch from meshgrid): entry [i, j] is the sample of receiver [i, j]
    if c['lo'] == 0:
        from emg3d import fields as _f
        xs = np.array([P[1][0], P[len(P)//2][0], P[-2][0], grid.nodes_x[0]
                       - 5.0, P[3][0]])
        ys = np.array([P[1][1], P[-2][1], P[len(P)//3][1]])
        for shp in ('ij', 'xy', '3d'):
            if shp == '3d':
                X, Y, Z = np.meshgrid(xs, ys, np.array([P[1][2], P[-2][2]]),
                                      indexing='ij')
            else:
                X, Y = np.meshgrid(xs, ys, indexing=shp)
                Z = np.full(X.shape, P[len(P)//2][2]) + 0.1*X - 0.1*X[0, 0]
            for fld, tri, sc, kind in ((F, tri_e, sc_e, 'electric'),
                                       (H, tri_h, sc_h, 'magnetic')):
                with warnings.catch_warnings(), np.errstate(all='ignore'):
                    warnings.simplefilter('ignore')
                    got = np.asarray(_f.get_receiver(
                        fld, (X, Y, Z, 30.0, 10.0), 'linear'))
                want = np.array([_rx1(fld, (x_, y_, z_), 30.0, 10.0)
                                 for x_, y_, z_ in zip(X.ravel(), Y.ravel(),
                                                       Z.ravel())]
                                ).reshape(X.shape)
                compared += X.size
                okn = np.array_equal(np.isnan(got), np.isnan(want))
                fin_ = np.isfinite(want)
                if got.shape != X.shape or not okn or (fin_.any() and np.abs(
                        got[fin_] - want[fin_]).max() > 1e-12*sc):
                    viol.append({
                        'cls': f'{kind}-receivers-given-as-nd-array-are-'
                               'permuted',
                        'what': f'coordinates of shape {X.shape} '
                                f'(meshgrid {shp}): entry-wise result '
                                'differs from single-receiver calls (NaN '
                                f'pattern equal: {okn})'})
    return {'viol': viol, 'compared': compared, 'transitions': 2*len(sets),
            'nontrivial': len(sets) > 0,
            'outcome': (c['lo'] // 1000, len(viol) > 0),
            'count': {'orientation_sets': len(sets)}}


def orient_cases(tier):
    _, sets = orient_sets(tier)
    out = []
    for g in (GRIDS_Q[:1] if tier == 'quick' else GRIDS_Q):
        for lo in range(0, len(sets), 60):
            out.append({'grid': g, 'tier': tier, 'lo': lo,
                        'hi': min(lo + 60, len(sets))})
    return out


# --------------------------------------------------------------------------
# sequences of get_magnetic_field calls on ONE model object

SEQ_FREQS = (1.0, 4.0, -2.0, -5.0)


def case_hseq(c):
    """get_magnetic_field(model, E) for a sequence of fields of different
    frequency / Laplace parameter on the SAME Model instance: every result
    equals the reference discrete Faraday law for its own s (nothing of an
    earlier call may stick to the model or the grid)."""
    import emg3d
    grid = zoo.mesh(c['grid'])
    model = zoo.model(grid, c['model'])
    viol, compared = [], 0
    for k, freq in enumerate(c['seq']):
        sval = zoo.sval_of(freq)
        dt = complex if freq > 0 else float
        e = emg3d.Field(grid, zoo.random_field(grid, ('c09s', k), dt,
                                               pec=True), frequency=freq)
        h = emg3d.get_magnetic_field(model, e)
        want = faraday_ref(grid, model, sval) @ e.field
        compared += 1
        err = np.abs(h.field - want).max()/np.abs(want).max()
        if not err <= 1e-12 or h.field.dtype != e.field.dtype:
            viol.append({
                'cls': 'magnetic-field-depends-on-earlier-calls' if k else
                       'magnetic-field-differs-from-reference-faraday',
                'what': f"call {k+1} of sequence {c['seq']} on one model "
                        f"({c['model']}): rel. error {err:.2e}, dtype "
                        f"{h.field.dtype}"})
            break
    return {'viol': viol, 'compared': compared,
            'transitions': len(c['seq']), 'nontrivial': len(c['seq']) > 1,
            'outcome': (len(c['seq']), c['seq'][0] > 0)}


def hseq_cases(tier):
    out = []
    depth = 3 if tier == 'quick' else 4
    for ms in MODELS_M if tier == 'quick' else MODELS_M_T:
        for d in range(1, depth + 1):
            for seq in itertools.product(SEQ_FREQS, repeat=d):
                out.append({'grid': GRIDS_Q[0], 'model': ms,
                            'seq': list(seq)})
    return out


# --------------------------------------------------------------------------
# sampling through a Survey / Simulation: every slot gets its own receiver

FN_SV = 'mc.checks.c09_receivers:case_survey'


def case_survey(c):
    """A Simulation samples the computed fields for all receivers of its
    survey: the datum of (source, receiver) equals the single-receiver
    sample of that source's field at THAT receiver (its position, orientation
    and type), for every ordering of electric and magnetic receivers."""
    import emg3d
    from ..refmodel import adjoint
    grid = zoo.mesh({'shape': (5, 6, 5), 'w': ('geo', 'alt', 'rnd')})
    model = zoo.model(grid, {'case': 'VTI', 'prof': 'rnd'})
    P = interior_positions(grid, FRACS_Q)
    pos = [P[2], P[len(P)//3], P[len(P)//2], P[-3], P[len(P)//4]]
    ang = [(20.0, 5.0), (-40.0, 10.0), (90.0, 0.0), (135.0, -30.0),
           (0.0, 90.0)]
    recs = []
    for k, t in enumerate(c['types']):
        cls = emg3d.RxElectricPoint if t == 'E' else emg3d.RxMagneticPoint
        recs.append(cls((*pos[k], *ang[k])))
    srcs = [emg3d.TxElectricPoint((*P[len(P)//2 + 7], 30.0, 10.0)),
            emg3d.TxElectricDipole((*P[len(P)//2 - 9], -60.0, 20.0),
                                   length=5.0)]
    survey = emg3d.Survey(srcs, recs, c['freq'])
    viol, compared = [], 0
    with warnings.catch_warnings():
        warnings.simplefilter('ignore')
        sim = emg3d.Simulation(survey, model, gridding='same', max_workers=1,
                               receiver_interpolation='linear',
                               tqdm_opts=False, verb=-1)
        with adjoint.exact_mode():
            sim.compute()
        data = np.asarray(sim.data.synthetic.data)
        for i, sk in enumerate(survey.sources):
            for fk in survey.frequencies:
                E = sim.get_efield(sk, fk)
                H = sim.get_hfield(sk, fk)
                for j, (rk, rec) in enumerate(survey.receivers.items()):
                    fld = E if rec.xtype == 'electric' else H
                    want = _rx1(fld, rec.coordinates[:3],
                                rec.coordinates[3], rec.coordinates[4])
                    got = data[i, j, 0]
                    compared += 1
                    sc = np.abs(fld.field).max()
                    if not abs(got - want) <= 1e-12*sc:
                        viol.append({
                            'cls': 'survey-datum-is-not-the-sample-at-its-'
                                   'own-receiver',
                            'what': f'receiver types {c["types"]}: datum of '
                                    f'({sk}, {rk}) = {got:.4e}, sample of '
                                    f'the {rec.xtype} field at that receiver '
                                    f'= {want:.4e}'})
    return {'viol': viol[:5], 'compared': compared,
            'transitions': len(c['types']), 'nontrivial': True,
            'outcome': (c['types'], bool(viol))}


def survey_cases(tier):
    out = []
    n = 4 if tier == 'quick' else 5
    for types in itertools.product('EM', repeat=n):
        for freq in ((1.0,) if tier == 'quick' else (1.0, -2.0)):
            out.append({'types': ''.join(types), 'freq': freq})
    return out


def prepare(ctx):
    impl.warm()
    import emg3d
    g = emg3d.TensorMesh([np.ones(4)]*3, origin=(0, 0, 0))
    m = emg3d.Model(g, 1.0, mu_r=1.5)
    for f in FREQS:          # compile _edge_curl_factor for both dtypes
        emg3d.get_magnetic_field(m, emg3d.Field(g, frequency=f))


def run(ctx):
    prepare(ctx)
    ctx.assume(
        "coordinates per axis from the alphabet {node, cell centre, 0.3 of a "
        "cell (thorough: and 0.8)} over cells 1..n-2 plus the closing node "
        "plane; "
        "angles from {0,90,180,-90,45,-135} x {0,90,-90,30,-35}; stretched "
        "grids with a different width profile per direction (geo/alt/"
        "seeded-random), 3..8 cells per direction",
        "linearity: the receiver functional is decided on the full edge "
        "basis (real and imaginary units) of each enumerated grid; rows are "
        "compared relative to their largest weight (1e-13 electric, 1e-12 "
        "magnetic)",
        "magnetic transpose identity against the real TxMagneticPoint vector "
        "only for models without mu_r (emg3d documents that the magnetic "
        "point source is not implemented for magnetic permeability); with "
        "mu_r the receiver side is compared with the reference discrete "
        "Faraday law only, and H-H reciprocity is not demanded",
        "reciprocity, exact mode: the iterative solver is replaced by a "
        "direct solve of the reference operator (C02: equal to emg3d's "
        "operator; C01: approximated by the real solver to tol); real mode: "
        "unmodified emg3d.solve(tol=1e-10, sslsolver=True), unconverged "
        "solves are inconclusive; allowed difference = rigorous a-posteriori "
        "bound from the true residuals of the two returned fields")
    q = ctx.quick
    if ctx.wants('transpose'):
        ctx.explore(
            'transpose', FN_T, transpose_cases(ctx.tier), engine='E1',
            rule='grids x 30 (azimuth, elevation) pairs (+ one mixed-angle '
                 'batch per grid); per case all interior alphabet positions '
                 'x full edge basis (unit and 1j*unit) through the real '
                 'get_receiver, real point-source vectors, real '
                 'get_magnetic_field per model x s; non-trivial = some '
                 'functional has more than one weight',
            time_cap=ctx.budget or (320 if q else 1400), chunksize=1)
    if ctx.wants('orientation-batches'):
        ctx.explore(
            'orientation-batches', FN_O, orient_cases(ctx.tier), engine='E1',
            rule='one get_receiver call per orientation combination: all '
                 'pairs of the 30 (azimuth, elevation) pairs, all triples of '
                 'the axis-related ones (thorough: of all 30), sign-'
                 'restricted sets per component; 3 positions each, E and H '
                 'field; every receiver = its own reference functional',
            time_cap=ctx.budget or (240 if q else 900), chunksize=1)
    if ctx.wants('magnetic-field-sequences'):
        ctx.explore(
            'magnetic-field-sequences', FN_S, hseq_cases(ctx.tier),
            engine='E2',
            rule='all sequences up to length 3 (thorough 4) over 4 frequency '
                 '/ Laplace values of get_magnetic_field calls on ONE Model '
                 'instance; every result = reference Faraday law for its own '
                 's; non-trivial = more than one call',
            time_cap=ctx.budget or (240 if q else 600))
    if ctx.wants('survey-sampling'):
        ctx.explore(
            'survey-sampling', FN_SV, survey_cases(ctx.tier), engine='E1',
            rule='all 2^4 (thorough 2^5) orderings of electric / magnetic '
                 'receivers in one survey x 2 sources: every datum of the '
                 'real Simulation (exact-solve mode) = single-receiver '
                 'sample of that source field at that receiver',
            time_cap=ctx.budget or (240 if q else 600), chunksize=1)
    if ctx.wants('nan'):
        ctx.explore(
            'nan', FN_N, nan_cases(ctx.tier), engine='E1',
            rule='grids x {linear,cubic} x {E,H field} x 6 orientations; per '
                 'case full product of a 13/14-value per-axis alphabet '
                 '(outside, boundary, outermost cell, 1 ulp either side of '
                 'the shared node planes, interior); non-trivial = both NaN '
                 'and finite answers occur',
            time_cap=ctx.budget or (240 if q else 600), chunksize=1)
    for mode in ('exact', 'real'):
        name = 'reciprocity-' + mode
        if not ctx.wants(name):
            continue
        res = ctx.explore(
            name, FN_R, reciprocity_cases(ctx.tier, mode), engine='E1',
            rule='grids x {E-E, H-H} x 3 models x 2 Laplace parameters; per '
                 'case all ordered pairs of 30 antennas (6 interior points x '
                 '5 orientations); non-trivial = pairs whose response exceeds '
                 '1e-6 of the largest response',
            time_cap=ctx.budget or (320 if q else 800), chunksize=1)
        done = [r for r in res if r and 'worst_rel' in r]
        if done:
            ctx.notes[f'{name}_worst_relative_asymmetry'] = max(
                r['worst_rel'] for r in done)
            ctx.notes[f'{name}_worst_asymmetry_over_aposteriori_bound'] = \
                max(r['worst_over_bound'] for r in done)
