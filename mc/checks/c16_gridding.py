"""C16 - automatic gridding meets its stated postconditions or fails loudly.

Engine E1.  Three explorations, all against the real ``emg3d.meshes``:

* ``oaw-lattice`` / ``oaw-product-*``: ``origin_and_widths`` (one direction)
  over the parameter alphabets of DESIGN.md 3/C16 - a deviation-bounded
  lattice over *all* fifteen parameters plus full products of three parameter
  groups (domain-, buffer- and width-related).
* ``construct-mesh``: lattice over the per-direction input formats of
  ``construct_mesh`` (scalar / one list / tuple of three / dict / partly None;
  properties of length 1, 2, 3, 4, 7); the checker routes the parameters to
  the three directions itself (from the documented formats) and applies the
  one-direction oracle to every direction of the returned mesh.
* ``estimate-opts``: ``estimate_gridding_opts`` on 4 surveys x 2 models x
  option sets, followed by ``construct_mesh(**opts)``.

The oracle is recomputed from the documented definitions (skin depth,
wavelength, minimum width, buffer, permitted cell numbers); nothing is read
from the ``info`` string.  Where the documentation is silent or ambiguous the
oracle demands *less* (listed in ``run`` as assumptions).
"""
import itertools
import json
import os
import warnings

import numpy as np
import scipy.constants

from .. import space

FN_OAW = 'mc.checks.c16_gridding:case_oaw'
FN_CM = 'mc.checks.c16_gridding:case_cm'
FN_EGO = 'mc.checks.c16_gridding:case_ego'

# Documented default list of construct_mesh (docstring `cell_numbers`).
GOOD = (16, 24, 32, 40, 48, 64, 80, 96, 128, 160, 192, 256, 320, 384, 512,
        640, 768, 1024)
ATOL = 1e-6          # [m] node / coverage tolerance (coordinates <= ~2e5 m)
RTOL = 1e-9          # ratio / width tolerance
SS_MSG = 'Seasurface is not at an actual boundary'

MAPPINGS = ('Resistivity', 'Conductivity', 'LgResistivity', 'LgConductivity',
            'LnResistivity', 'LnConductivity')
# Properties as resistivities (Ohm.m), converted to the mapping of the case.
PROPS = {'L1': [0.3], 'L2': [0.3, 2.0], 'L3': [1.0, 20.0, 3000.0],
         'L4': [0.7, 5.0, 1.5, 900.0],
         'L7': [0.4, 3.0, 8.0, 1.2, 40.0, 2.0, 2500.0]}
VECTORS = {
    'reg': np.linspace(-1000.0, 1000.0, 21),
    'irr': np.array([-1250., -900., -700., -610., -500., -440., -300., -100.,
                     0., 50., 120., 400., 410., 800.]),
    'out': np.arange(-3000.0, 501.0, 250.0),
    'away': np.array([5000., 5100., 5210., 5300.]),
    # further vectors for the y / z direction of the construct_mesh lattice
    'regy': np.linspace(-600.0, 900.0, 16),
    'irrz': np.array([-2100., -1500., -1100., -1000., -950., -900., -800.,
                      -600., -300., -120., -50., 0.]),
}
SEAS = {'near': 35.0, 'far': 1210.0}     # offsets above the centre


# ------------------------------------------------------------ reference model
def to_mapping(rho, mapping):
    rho = np.asarray(rho, dtype=float)
    return {'Resistivity': rho, 'Conductivity': 1/rho,
            'LgResistivity': np.log10(rho), 'LgConductivity': -np.log10(rho),
            'LnResistivity': np.log(rho), 'LnConductivity': -np.log(rho),
            }[mapping]


def ref_conductivity(values, mapping):
    v = np.asarray(values, dtype=float)
    if mapping == 'Resistivity':
        return 1/v
    if mapping == 'Conductivity':
        return v
    if mapping == 'LgResistivity':
        return 10**(-v)
    if mapping == 'LgConductivity':
        return 10**v
    if mapping == 'LnResistivity':
        return np.exp(-v)
    if mapping == 'LnConductivity':
        return np.exp(v)
    raise ValueError(mapping)


def ref_skin_depth(freq, cond):
    """sqrt(2/(omega sigma mu0)); Laplace (f<0): divided by sqrt(2 pi)."""
    d = np.sqrt(2.0/(2*np.pi*abs(freq)*cond*scipy.constants.mu_0))
    if freq < 0:
        d = d/np.sqrt(2*np.pi)
    return d


def ref_dmin(delta0, pps, limits):
    w = delta0/float(np.ravel(pps)[0])
    if limits is not None:
        lim = np.ravel(np.asarray(limits, dtype=float))
        if lim.size == 1:
            w = lim[0]
        else:
            w = min(max(w, lim[0]), lim[1])
    return float(w)


def is_node(nodes, x, tol=ATOL):
    return bool(np.min(np.abs(nodes - x)) <= tol)


# --------------------------------------------------- one-direction: the call
def oaw_kwargs(p):
    """Keyword arguments for origin_and_widths from the concrete spec p."""
    kw = {'frequency': p['frequency'], 'properties': list(p['properties']),
          'center': p['center'], 'mapping': p['mapping']}
    if p.get('domain') is not None:
        kw['domain'] = list(p['domain'])
    if p.get('distance') is not None:
        kw['distance'] = list(p['distance'])
    if p.get('vector') is not None:
        kw['vector'] = np.array(p['vector'], dtype=float)
    if p.get('seasurface') is not None:
        kw['seasurface'] = p['seasurface']
    for k in ('stretching', 'min_width_limits', 'min_width_pps',
              'lambda_factor', 'max_buffer', 'lambda_from_center',
              'cell_numbers'):
        if p.get(k) is not None:
            kw[k] = p[k]
    if p.get('center_on_edge', 'notset') != 'notset':
        kw['center_on_edge'] = p['center_on_edge']
    return kw


def run_guarded(fn, *args, **kw):
    """-> (status, result, messages of the warnings raised, exception)."""
    with warnings.catch_warnings(record=True) as rec:
        warnings.simplefilter('always')
        with np.errstate(all='ignore'):
            try:
                res = fn(*args, **kw)
                status, exc = 'ok', None
            except RuntimeError as e:
                res, status, exc = None, 'RuntimeError', e
            except Exception as e:          # noqa - classified by the caller
                res, status, exc = None, type(e).__name__, e
    msgs = [(w.category.__name__, str(w.message)) for w in rec]
    return status, res, msgs, exc


def rejected_reason(p):
    """Documented input rejections (ValueError) of origin_and_widths."""
    if p.get('domain') is None and p.get('distance') is None and \
            p.get('vector') is None:
        return 'no-domain-distance-vector'
    if p.get('seasurface') is not None and p['seasurface'] <= p['center']:
        return 'seasurface-not-above-center'
    return None


# ------------------------------------------------- one-direction: the oracle
def oracle_1d(p, x0, h, msgs):
    """Documented postconditions of a returned (origin, widths) pair.

    Returns (violations, comparisons, tags)."""
    viol, ncmp, tags = [], 0, {}

    def bad(cls, what, observed=None, expected=None):
        viol.append({'cls': cls, 'what': what, 'observed': observed,
                     'expected': expected})

    h = np.asarray(h, dtype=float)
    c = float(p['center'])
    s0, s1 = [float(s) for s in (p.get('stretching') or [1.0, 1.5])]
    limits = p.get('min_width_limits')
    pps = p.get('min_width_pps') or 3
    lfac = 1.0 if p.get('lambda_factor') is None else p['lambda_factor']
    maxb = 100000 if p.get('max_buffer') is None else p['max_buffer']
    lfc = bool(p.get('lambda_from_center'))
    coe = p.get('center_on_edge', 'notset')
    coe = True if coe == 'notset' else bool(coe)
    ss = p.get('seasurface')
    vec = None if p.get('vector') is None else np.array(p['vector'], float)

    # 1. widths positive and finite; cell number permitted.
    ncmp += 2
    if h.ndim != 1 or h.size == 0 or not np.all(np.isfinite(h)) or \
            not np.all(h > 0) or not np.isfinite(x0):
        bad('nonpositive-width', f'widths not all finite and > 0 (min '
            f'{np.min(h) if h.size else None}, origin {x0})')
        return viol, ncmp, tags
    allowed = GOOD if p.get('cell_numbers') is None else \
        tuple(int(n) for n in p['cell_numbers'])
    if h.size not in allowed:
        bad('cell-count-not-permitted', f'{h.size} cells, permitted {allowed}',
            h.size, list(allowed))
    nodes = float(x0) + np.r_[0.0, np.cumsum(h)]

    # Documented physical quantities.
    cond = ref_conductivity(p['properties'], p['mapping'])
    cond3 = np.array([cond[0], cond[min(cond.size-1, 1)],
                      cond[min(cond.size-1, 2)]])
    delta = ref_skin_depth(p['frequency'], cond3)
    lam = 2*np.pi*delta[1:]*lfac            # buffer (negative, positive) side
    dmin = ref_dmin(delta[0], pps, limits)

    # 2. survey domain: domain > distance > vector; raised to the sea surface.
    if p.get('domain') is not None:
        dom = [float(p['domain'][0]), float(p['domain'][1])]
    elif p.get('distance') is not None:
        dom = [c - abs(p['distance'][0]), c + abs(p['distance'][1])]
    else:
        dom = [float(vec.min()), float(vec.max())]
    udom = list(dom)                        # as provided by the user
    if ss is not None:
        dom[1] = max(dom[1], float(ss))
    ncmp += 1
    if nodes[0] > dom[0] + ATOL or nodes[-1] < dom[1] - ATOL:
        bad('survey-domain-not-covered',
            f'mesh [{nodes[0]:.3f}, {nodes[-1]:.3f}] does not contain the '
            f'survey domain [{dom[0]:.3f}, {dom[1]:.3f}]',
            [nodes[0], nodes[-1]], dom)

    # 3. computational domain.
    if lfc:
        # centre -> edge of Dc -> back to the end of Ds is two wavelengths;
        # max_buffer limits the distance centre -> edge of Dc.  Only demanded
        # on sides where the centre is not beyond the survey domain.
        lo = dom[0] - max(0.0, (2*lam[0] - abs(dom[0] - c))/2)
        hi = dom[1] + max(0.0, (2*lam[1] - abs(dom[1] - c))/2)
        lo, hi = max(lo, c - maxb), min(hi, c + maxb)
        if c < dom[0]:
            lo = dom[0]
        if c > dom[1]:
            hi = dom[1]
    else:
        lo = dom[0] - min(lam[0], maxb)
        hi = dom[1] + min(lam[1], maxb)
    lo, hi = min(lo, dom[0]), max(hi, dom[1])
    ncmp += 1
    tags['buffer'] = (round(dom[0]-lo), round(hi-dom[1]))
    if nodes[0] > lo + ATOL or nodes[-1] < hi - ATOL:
        bad('computational-domain-not-covered',
            f'mesh [{nodes[0]:.3f}, {nodes[-1]:.3f}] does not contain the '
            f'computational domain [{lo:.3f}, {hi:.3f}] (survey domain '
            f'{dom}, wavelengths*factor {lam.tolist()}, max_buffer {maxb}, '
            f'from_center {lfc})', [nodes[0], nodes[-1]], [lo, hi])

    # Status of a provided vector w.r.t. the documented rules.
    if vec is not None:
        vin = vec[(vec >= udom[0]) & (vec <= udom[1])]
        kin = vin.size
        below, above = vec[vec <= udom[0]], vec[vec >= udom[1]]
        keep = [below.max() if below.size else vec.min(),
                above.min() if above.size else vec.max()]
    else:
        vin, kin, keep = np.array([]), 0, None
    vec_surely_kept = kin >= 3
    vec_surely_gone = vec is None or kin == 0

    # 4. stretching between neighbours.
    if ss is None:
        allow = 1.0
    elif vec_surely_gone and not coe:
        allow = 1.1
    else:
        allow = 1.25
    loose = max(s1, s0*allow)
    r = np.maximum(h[1:]/h[:-1], h[:-1]/h[1:])
    inner = nodes[1:-1]
    check = np.ones(r.size, dtype=bool)
    if keep is not None and not vec_surely_gone:
        check &= ~((inner > keep[0] + ATOL) & (inner < keep[1] - ATOL))
    left, right = nodes[:-1], nodes[1:]
    surv = (left < dom[1] - ATOL) & (right > dom[0] + ATOL)
    fine = check & surv[:-1] & surv[1:]
    ncmp += int(check.sum()) + int(fine.sum())
    tags['maxratio'] = round(float(r[check].max()), 3) if check.any() else 1.0
    if check.any() and r[check].max() > loose*(1 + RTOL):
        i = int(np.flatnonzero(check)[np.argmax(r[check])])
        bad('stretching-exceeded',
            f'width ratio {r[i]:.6f} at node {inner[i]:.3f} exceeds '
            f'max(stretching[1], stretching[0]*{allow}) = {loose}',
            float(r[i]), loose)
    elif fine.any() and r[fine].max() > s0*allow*(1 + RTOL):
        i = int(np.flatnonzero(fine)[np.argmax(r[fine])])
        bad('survey-domain-stretching-exceeded',
            f'width ratio {r[i]:.6f} at node {inner[i]:.3f} inside the survey '
            f'domain {dom} exceeds stretching[0]*{allow} = {s0*allow}',
            float(r[i]), s0*allow)

    # 5. centre on a node / at a cell centre; vector nodes are mesh nodes.
    if coe:
        centre_ok = is_node(nodes, c)
    else:
        centre_ok = is_node(0.5*(nodes[1:] + nodes[:-1]), c)
    vnodes_ok = bool(kin == 0 or all(is_node(nodes, v) for v in vin))
    if vec_surely_kept:
        ncmp += kin
        if not vnodes_ok:
            miss = [float(v) for v in vin if not is_node(nodes, v)]
            bad('vector-node-missing',
                f'{len(miss)} of {kin} vector nodes inside the domain {udom} '
                f'are not mesh nodes, e.g. {miss[:3]}', miss[:8])
    elif ss is None:
        ncmp += 1
        if vec_surely_gone:
            if not centre_ok:
                bad('centre-not-on-node' if coe else
                    'centre-not-at-cell-centre',
                    f'center {c} is not a mesh ' +
                    ('node' if coe else 'cell centre') +
                    f' (center_on_edge={p.get("center_on_edge", "notset")})',
                    nodes[np.argsort(abs(nodes-c))[:3]].tolist(), c)
        elif not (vnodes_ok or centre_ok):
            bad('neither-vector-nor-centre-honoured',
                f'vector has {kin} node(s) in the domain: neither are they '
                f'mesh nodes nor is the center {c} where requested')

    # 6. minimum width (Equation mincellwidth; a vector overrules it).
    if vec_surely_gone:
        ncmp += 1
        lim = None if limits is None else np.ravel(np.asarray(limits, float))
        if ss is None:
            k = int(np.argmin(abs(nodes - c))) if coe else \
                int(np.argmin(abs(0.5*(nodes[1:] + nodes[:-1]) - c)))
            wc = h[[k-1, k]] if coe and 0 < k < h.size else \
                h[[min(k, h.size-1)]]
            if abs(h.min() - dmin) > RTOL*dmin or \
                    np.any(abs(wc - dmin) > RTOL*dmin):
                bad('min-width-differs',
                    f'smallest width {h.min():.6f} / width at the centre '
                    f'{wc.tolist()} differ from delta/pps within limits = '
                    f'{dmin:.6f}', float(h.min()), dmin)
        elif lim is not None and lim.size == 1:
            if abs(h.min() - lim[0]) > RTOL*lim[0]:
                bad('min-width-differs',
                    f'smallest width {h.min():.6f} != fixed limit {lim[0]}',
                    float(h.min()), float(lim[0]))
        elif lim is not None:
            if h.min() < lim[0]*(1 - RTOL):
                bad('min-width-below-limit',
                    f'smallest width {h.min():.6f} < lower limit {lim[0]}',
                    float(h.min()), float(lim[0]))

    # 7. sea surface is a node, or the documented warning was raised.
    if ss is not None:
        ncmp += 1
        warned = any(SS_MSG in m for _, m in msgs)
        onnode = is_node(nodes, float(ss))
        tags['ss'] = 'node' if onnode else ('warned' if warned else 'silent')
        if not onnode and not warned:
            bad('seasurface-neither-node-nor-warning',
                f'seasurface {ss} is no mesh node (nearest '
                f'{nodes[np.argmin(abs(nodes-ss))]:.4f}) and no warning was '
                f'raised', [m for _, m in msgs], SS_MSG)
    return viol, ncmp, tags


def witness_1d(p):
    """An admissible mesh built by the checker from the documented rules
    (centre cell(s) of the minimum width, maximum permitted stretching in the
    survey domain and in the buffer, permitted cell number, left-over cells
    appended outwards) - or None.  Only for inputs without vector and sea
    surface.  The witness is accepted only if ``oracle_1d`` finds nothing
    wrong with it, so its existence proves that an admissible mesh exists."""
    if p.get('vector') is not None or p.get('seasurface') is not None:
        return None
    if p.get('domain') is None and p.get('distance') is None:
        return None
    s0, s1 = [float(s) for s in (p.get('stretching') or [1.0, 1.5])]
    if not (s0 == 1 or s0 - 1 >= 0.002) or not (s1 == s0 or s1-s0 >= 0.002):
        return None                      # outside the documented search
    c = float(p['center'])
    coe = p.get('center_on_edge', 'notset')
    coe = True if coe == 'notset' else bool(coe)
    cond = ref_conductivity(p['properties'], p['mapping'])
    cond3 = np.array([cond[0], cond[min(cond.size-1, 1)],
                      cond[min(cond.size-1, 2)]])
    delta = ref_skin_depth(p['frequency'], cond3)
    lfac = 1.0 if p.get('lambda_factor') is None else p['lambda_factor']
    maxb = 100000 if p.get('max_buffer') is None else p['max_buffer']
    lam = 2*np.pi*delta[1:]*lfac
    dmin = ref_dmin(delta[0], p.get('min_width_pps') or 3,
                    p.get('min_width_limits'))
    if p.get('domain') is not None:
        dom = [float(p['domain'][0]), float(p['domain'][1])]
    else:
        dom = [c - abs(p['distance'][0]), c + abs(p['distance'][1])]
    if p.get('lambda_from_center'):
        lo = dom[0] - max(0.0, (2*lam[0] - abs(dom[0] - c))/2)
        hi = dom[1] + max(0.0, (2*lam[1] - abs(dom[1] - c))/2)
        lo, hi = max(lo, c - maxb), min(hi, c + maxb)
    else:
        lo, hi = dom[0] - min(lam[0], maxb), dom[1] + min(lam[1], maxb)
    lo, hi = min(lo, dom[0]), max(hi, dom[1])
    eps = 1e-6
    cw = [dmin, dmin] if coe else [dmin]
    edge = [c - dmin, c + dmin] if coe else [c - dmin/2, c + dmin/2]
    side = []
    for k, (lim_s, lim_c, sgn) in enumerate(((dom[0], lo, -1),
                                             (dom[1], hi, 1))):
        w, e, ws = dmin, edge[k], []
        while sgn*(lim_s - e) > -eps and len(ws) < 1100:
            w *= s0
            ws.append(w)
            e += sgn*w
        while sgn*(lim_c - e) > -eps and len(ws) < 1100:
            w *= s1
            ws.append(w)
            e += sgn*w
        side.append(ws)
    allowed = GOOD if p.get('cell_numbers') is None else \
        tuple(sorted(int(n) for n in p['cell_numbers']))
    need = len(cw) + len(side[0]) + len(side[1])
    for nx in allowed:
        if nx < need:
            continue
        rem = nx - need
        ext = []
        for ws, n in zip(side, (rem//2, rem - rem//2)):
            w = ws[-1] if ws else dmin
            ext.append(list(ws) + [w*s1**(i+1) for i in range(n)])
        h = np.array(ext[0][::-1] + cw + ext[1])
        if not np.all(np.isfinite(h)):
            return None
        x0 = edge[0] - float(np.sum(ext[0]))
        if not oracle_1d(p, x0, h, [])[0]:
            return x0, h
        return None
    return None


def judge_1d(p, status, res, msgs, exc):
    """Classify one origin_and_widths call.  -> (viol, ncmp, outcome, cnt)."""
    rej = rejected_reason(p)
    if status == 'ok':
        x0, h = res[0], res[1]
        if x0 is None or h is None:
            return ([{'cls': 'silent-failure', 'what': 'origin_and_widths '
                      'returned None instead of raising'}], 1, ('none',),
                    {'silent-none': 1})
        viol, ncmp, tags = oracle_1d(p, x0, h, msgs)
        if rej is not None:
            # Not demanded by the property; counted only.
            tags['accepted-invalid'] = rej
        cnt = {'mesh': 1}
        if 'ss' in tags:
            cnt['seasurface-' + tags['ss']] = 1
        out = ('mesh', int(len(h)), tags.get('ss'), tags.get('buffer'),
               tags.get('maxratio'))
        return viol, ncmp, out, cnt
    if status == 'RuntimeError':
        wit = witness_1d(p)
        if wit is not None:
            return ([{'cls': 'fails-although-admissible-mesh-exists',
                      'what': f'RuntimeError, but a mesh with {wit[1].size} '
                              f'cells, origin {wit[0]:.3f}, built with the '
                              f'maximum permitted stretching meets every '
                              f'documented postcondition',
                      'observed': 'RuntimeError',
                      'expected': [wit[0], int(wit[1].size)]}], 2,
                    ('RuntimeError', 'spurious'), {'loud-failure': 1})
        return [], 2, ('RuntimeError',), {'loud-failure': 1}
    if status == 'ValueError' and rej is not None:
        return [], 1, ('rejected', rej), {'rejected-input': 1}
    return ([{'cls': 'unexpected-exception',
              'what': f'{status}: {exc} (only RuntimeError, or ValueError '
                      f'for the documented invalid inputs, is expected)',
              'observed': repr(exc)}], 1, ('exception', status),
            {'unexpected-exception': 1})


# ------------------------------------------------ origin_and_widths: cases
OAW = {
    'frequency': [1.0, 0.01, 77.0, -3.0],
    'pm': [['L2', 'Resistivity']] + [
        [ln, m] for m in MAPPINGS for ln in ('L1', 'L2', 'L3')
        if (ln, m) != ('L2', 'Resistivity')],
    'center': [0.0, -950.0, 333.3],
    'domain': [[-2000.0, 1500.0], [-600.5, 412.0], None],
    'distance': [None, [300.0, 800.0], [-2500.0, 4000.0], [1500.0, -700.0]],
    'vector': [None, 'reg', 'irr', 'out'],
    'stretching': [[1.0, 1.5], [1.05, 1.3], [1.2, 1.2]],
    'min_width_limits': [None, 55.0, [20.0, 120.0]],
    'min_width_pps': [3, 5],
    'lambda_factor': [1.0, 0.5],
    'lambda_from_center': [False, True],
    'max_buffer': [100000, 3000],
    'center_on_edge': [True, False],
    'seasurface': [None, 'near', 'far'],
    'cell_numbers': [None, [10, 24, 50, 100]],
}
# Extra values visited by the lattice only.
OAW_LATTICE_EXTRA = {
    'vector': ['away'],
    'center_on_edge': ['notset'],
    'seasurface': ['below'],
    'stretching': [[1.0, 1.0], [1.3, 1.1]],
    'cell_numbers': [[8, 16]],
    'min_width_pps': [4.5],
}


def concrete_1d(c):
    """Case spec (symbols) -> concrete one-direction parameter dict."""
    p = {k: c[k] for k in ('frequency', 'center', 'domain', 'distance',
                           'stretching', 'min_width_limits', 'min_width_pps',
                           'lambda_factor', 'lambda_from_center',
                           'max_buffer', 'center_on_edge', 'cell_numbers')}
    ln, mapping = c['pm']
    p['properties'] = to_mapping(PROPS[ln], mapping).tolist()
    p['mapping'] = mapping
    p['vector'] = None if c['vector'] is None else \
        VECTORS[c['vector']].tolist()
    s = c['seasurface']
    if s is None:
        p['seasurface'] = None
    elif s == 'below':
        p['seasurface'] = c['center'] - 10.0
    else:
        p['seasurface'] = c['center'] + SEAS[s]
    return p


def case_oaw(c):
    from emg3d import meshes
    p = concrete_1d(c)
    status, res, msgs, exc = run_guarded(
        meshes.origin_and_widths, **oaw_kwargs(p))
    viol, ncmp, out, cnt = judge_1d(p, status, res, msgs, exc)
    # verb=-1 / raise_error=False (the form used by construct_mesh) agrees.
    if c.get('alt_call'):
        st2, res2, _, exc2 = run_guarded(
            meshes.origin_and_widths, verb=-1, raise_error=False,
            **oaw_kwargs(p))
        ncmp += 1
        same = False
        if status == 'ok' and st2 == 'ok' and res2[0] is not None:
            same = res[0] == res2[0] and np.array_equal(res[1], res2[1]) \
                and isinstance(res2[2], str)
        elif status == 'RuntimeError':
            same = st2 == 'ok' and res2[0] is None and res2[1] is None
        else:
            same = st2 == status
        if not same:
            viol.append({'cls': 'raise_error-False-differs',
                         'what': f'raise_error=True gave {status}, '
                                 f'raise_error=False gave {st2} / '
                                 f'{None if res2 is None else res2[0]}'})
    return {'viol': viol, 'compared': ncmp,
            'transitions': max(1, len(c.get('dev', ()))),
            'nontrivial': out[0] in ('mesh', 'RuntimeError'),
            'outcome': tuple(jsonish(out)), 'count': cnt}


def jsonish(x):
    if isinstance(x, (list, tuple)):
        return tuple(jsonish(v) for v in x)
    if isinstance(x, (np.floating, np.integer)):
        return x.item()
    return x


def oaw_lattice(depth, depth_all_pm=None):
    """All configurations with <= depth deviations; the 18 property/mapping
    values are all used up to ``depth_all_pm`` deviations, four of them (one
    per length, three mappings) in the deeper levels."""
    dom = {k: list(v) + OAW_LATTICE_EXTRA.get(k, []) for k, v in OAW.items()}
    dall = depth if depth_all_pm is None else min(depth, depth_all_pm)
    out = []
    for cfg, dev in space.lattice(dom, dall):
        cfg['dev'] = [[n, dom[n][i]] for n, i in dev]
        cfg['alt_call'] = len(dev) <= 2
        out.append(cfg)
    if dall < depth:
        dom['pm'] = [OAW['pm'][0]] + PM3
        for cfg, dev in space.lattice(dom, depth):
            if len(dev) > dall:
                cfg['dev'] = [[n, dom[n][i]] for n, i in dev]
                cfg['alt_call'] = False
                out.append(cfg)
    return out


def oaw_product(names, base=None, **override):
    dom = {k: [v[0]] for k, v in OAW.items()}
    for k, v in (base or {}).items():
        dom[k] = [v]
    for n in names:
        dom[n] = OAW[n]
    dom.update(override)
    return list(space.product(dom))


PM3 = [['L1', 'Resistivity'], ['L2', 'LgConductivity'], ['L3', 'Resistivity']]


def oaw_products(tier):
    """name -> cases of the full sub-products (others at their default)."""
    prods = {}
    if tier == 'quick':
        prods['domain'] = oaw_product(
            ['frequency', 'center', 'domain', 'distance', 'vector',
             'seasurface', 'center_on_edge'], pm=PM3)
        prods['buffer'] = oaw_product(
            ['frequency', 'pm', 'lambda_factor', 'lambda_from_center',
             'max_buffer', 'cell_numbers'], domain=OAW['domain'][:2])
        prods['width'] = oaw_product(
            ['frequency', 'stretching', 'min_width_limits',
             'center_on_edge', 'seasurface', 'cell_numbers'],
            vector=[None, 'irr'], min_width_pps=[5])
    else:
        prods['domain'] = oaw_product(
            ['frequency', 'center', 'domain', 'distance', 'vector',
             'min_width_limits', 'center_on_edge', 'seasurface',
             'lambda_from_center', 'cell_numbers'], pm=PM3)
        prods['stretch'] = oaw_product(
            ['frequency', 'center', 'domain', 'vector', 'stretching',
             'center_on_edge', 'seasurface'], pm=PM3[1:])
        prods['buffer'] = oaw_product(
            ['frequency', 'pm', 'center', 'domain', 'stretching',
             'lambda_factor', 'lambda_from_center', 'max_buffer',
             'cell_numbers'])
        prods['width'] = oaw_product(
            ['frequency', 'stretching', 'min_width_limits', 'min_width_pps',
             'center_on_edge', 'seasurface', 'cell_numbers', 'vector',
             'center'])
    return prods


# ---------------------------------------------------- construct_mesh: cases
CENTER3 = (120.0, -40.0, -950.0)
DOM3 = ([-1800.0, 2100.0], [-700.0, 650.0], [-2500.0, -100.0])
DIST3 = ([500.0, 900.0], [-350.0, 200.0], [1200.0, -640.0])   # signed: |.| counts
STR3 = ([1.0, 1.5], [1.04, 1.35], [1.1, 1.25])
LIM3 = (55.0, [20.0, 120.0], None)
PPS3 = (3, 5, 4)
COE3 = (True, False, True)

CM = {
    # value = [format, ...]; see build_cm for the meaning
    'properties': ['L2', 'L1f', 'L1', 'L3', 'L4', 'L7'],
    'domain': ['tuple', 'dict', 'single', 'partial-dict', 'none'],
    'distance': ['none', 'single', 'tuple', 'dict', 'partial'],
    'vector': ['none', 'array', 'tuple', 'dict', 'partial'],
    'stretching': ['absent', 'single', 'tuple', 'dict', 'tight-z'],
    'min_width_limits': ['absent', 'float', 'pair', 'tuple', 'dict'],
    'min_width_pps': ['absent', 'int', 'float', 'tuple', 'dict'],
    'center_on_edge': ['true', 'false', 'tuple', 'dict', 'absent'],
    'seasurface': ['none', 'far', 'near'],
    'frequency': [1.0, 77.0, -3.0],
    'mapping': ['Resistivity', 'LgConductivity', 'absent', 'LnResistivity-Map'],
    'buffer': ['default', 'half-capped', 'from-center'],
    'cell_numbers': ['default', 'short', 'tiny'],
}


def _fmt3(fmt, vals, single):
    """-> (argument as passed, per-direction values) for a 3-direction arg."""
    if fmt in ('none', 'absent'):
        return None, [None, None, None]
    if fmt == 'single':
        return single, [single, single, single]
    if fmt == 'tuple':
        return tuple(vals), list(vals)
    if fmt == 'dict':
        # a dict is addressed by its keys: insertion order z, x, y on purpose
        return {k: vals['xyz'.index(k)] for k in 'zxy'}, list(vals)
    raise ValueError(fmt)


def build_cm(c):
    """-> (kwargs for construct_mesh, [px, py, pz] routed by the checker)."""
    kw = {'frequency': c['frequency'], 'center': CENTER3}
    per = [{'frequency': c['frequency'], 'center': CENTER3[d]}
           for d in range(3)]

    mapping = 'Resistivity' if c['mapping'] == 'absent' else \
        c['mapping'].replace('-Map', '')
    if c['mapping'].endswith('-Map'):      # a Map instance instead of a name
        import emg3d
        kw['mapping'] = getattr(emg3d.maps, 'Map'+mapping)()
    elif c['mapping'] != 'absent':
        kw['mapping'] = mapping
    ln = c['properties'].rstrip('f')
    prop = to_mapping(PROPS[ln], mapping).tolist()
    kw['properties'] = prop[0] if c['properties'] == 'L1f' else prop
    # documented routing of the property formats
    route = {1: [[0]]*3, 2: [[0, 1]]*3,
             3: [[0, 2, 2], [0, 2, 2], [0, 1, 2]],
             4: [[0, 1, 1], [0, 1, 1], [0, 2, 3]],
             7: [[0, 1, 2], [0, 3, 4], [0, 5, 6]]}[len(prop)]
    for d in range(3):
        per[d]['properties'] = [prop[i] for i in route[d]]
        per[d]['mapping'] = mapping

    # domain / distance / vector
    f = c['domain']
    if f == 'partial-dict':
        arg, vals = {'y': DOM3[1], 'z': DOM3[2], 'x': None}, \
            [None, DOM3[1], DOM3[2]]
    else:
        arg, vals = _fmt3(f, DOM3, [-2600.0, 2100.0])
    kw['domain'] = arg
    for d in range(3):
        per[d]['domain'] = vals[d]

    f = c['distance']
    if f == 'partial':
        arg, vals = (DIST3[0], None, None), [DIST3[0], None, None]
    else:
        arg, vals = _fmt3(f, DIST3, [700.0, 1650.0])
    if arg is not None:
        kw['distance'] = arg
    for d in range(3):
        per[d]['distance'] = vals[d]

    f = c['vector']
    v3 = [VECTORS['irr'], VECTORS['regy'], VECTORS['irrz']]
    if f == 'array':
        arg, vals = VECTORS['irrz'].copy(), [VECTORS['irrz']]*3
    elif f == 'partial':
        arg, vals = (v3[0].copy(), None, None), [v3[0], None, None]
    else:
        arg, vals = _fmt3(f, [v.copy() for v in v3], None)
    kw['vector'] = arg
    for d in range(3):
        per[d]['vector'] = None if vals[d] is None else \
            np.asarray(vals[d]).tolist()

    # per-direction keyword arguments
    if c['stretching'] == 'tight-z':     # z alone (most likely) fails
        arg = (STR3[0], STR3[1], [1.0, 1.01])
        vals = list(arg)
    else:
        arg, vals = _fmt3(c['stretching'], STR3, [1.05, 1.3])
    if arg is not None:
        kw['stretching'] = arg
    for d in range(3):
        per[d]['stretching'] = vals[d]

    f = c['min_width_limits']
    if f == 'float':
        arg, vals = 55.0, [55.0]*3
    elif f == 'pair':
        arg, vals = [20.0, 120.0], [[20.0, 120.0]]*3
    else:
        arg, vals = _fmt3(f, LIM3, None)
    if arg is not None:
        kw['min_width_limits'] = arg
    for d in range(3):
        per[d]['min_width_limits'] = vals[d]

    f = c['min_width_pps']
    if f == 'int':
        arg, vals = 5, [5]*3
    elif f == 'float':
        arg, vals = 4.5, [4.5]*3
    else:
        arg, vals = _fmt3(f, PPS3, None)
    if arg is not None:
        kw['min_width_pps'] = arg
    for d in range(3):
        per[d]['min_width_pps'] = vals[d]

    f = c['center_on_edge']
    if f == 'true':
        arg, vals = True, [True]*3
    elif f == 'false':
        arg, vals = False, [False]*3
    elif f == 'absent':
        arg, vals = None, ['notset']*3
    else:
        arg, vals = _fmt3(f, COE3, None)
    if arg is not None:
        kw['center_on_edge'] = arg
    for d in range(3):
        per[d]['center_on_edge'] = vals[d]

    # sea surface: z only
    ss = None if c['seasurface'] == 'none' else \
        CENTER3[2] + SEAS[c['seasurface']]
    if ss is not None:
        kw['seasurface'] = ss
    for d in range(3):
        per[d]['seasurface'] = ss if d == 2 else None

    # direction-independent pass-through
    if c['buffer'] == 'half-capped':
        extra = {'lambda_factor': 0.5, 'max_buffer': 3000}
    elif c['buffer'] == 'from-center':
        extra = {'lambda_from_center': True, 'max_buffer': 20000}
    else:
        extra = {}
    if c['cell_numbers'] == 'short':
        extra['cell_numbers'] = [10, 20, 50, 100, 200]
    elif c['cell_numbers'] == 'tiny':
        extra['cell_numbers'] = [8, 12]
    kw.update(extra)
    for d in range(3):
        per[d].update(extra)
    return kw, per


def case_cm(c):
    import emg3d
    from emg3d import meshes
    kw, per = build_cm(c)
    status, mesh, msgs, exc = run_guarded(emg3d.construct_mesh, **kw)
    viol, ncmp, cnt = [], 0, {}
    rej = [rejected_reason(p) for p in per]
    # Expected per direction, from direct one-direction calls.
    direct = [run_guarded(meshes.origin_and_widths, **oaw_kwargs(p))
              for p in per]
    dstat = [d[0] for d in direct]
    if status == 'ok':
        cnt['mesh'] = 1
        shape = []
        for d in range(3):
            x0, h = float(mesh.origin[d]), np.asarray(mesh.h[d])
            shape.append(int(h.size))
            # warnings of x/y/z cannot be told apart: sea surface is z only.
            v, n, tags = oracle_1d(per[d], x0, h, msgs)
            for vv in v:
                vv['what'] = f"direction {'xyz'[d]}: " + vv['what']
            viol += v
            ncmp += n + 1
            if dstat[d] != 'ok':
                viol.append({'cls': 'routing-differs',
                             'what': f"direction {'xyz'[d]}: construct_mesh "
                             f'returned a mesh, origin_and_widths with the '
                             f'documented routing gives {dstat[d]}'})
            elif not (direct[d][1][0] == x0 and
                      np.array_equal(direct[d][1][1], h)):
                viol.append({
                    'cls': 'routing-differs',
                    'what': f"direction {'xyz'[d]}: construct_mesh differs "
                    f'from origin_and_widths with the documented per-'
                    f'direction routing (n={h.size} vs '
                    f'{direct[d][1][1].size}, origin {x0} vs '
                    f'{direct[d][1][0]})',
                    'observed': [x0, h.size, float(h.min())],
                    'expected': [direct[d][1][0], direct[d][1][1].size,
                                 float(direct[d][1][1].min())]})
        out = ('mesh',) + tuple(shape)
    elif status == 'RuntimeError':
        cnt['loud-failure'] = 1
        ncmp += 1
        if 'RuntimeError' not in dstat:
            viol.append({'cls': 'routing-differs',
                         'what': 'construct_mesh raised RuntimeError but '
                         f'every direction alone gives {dstat}'})
        out = ('RuntimeError', tuple(dstat))
    elif status == 'ValueError' and any(rej):
        cnt['rejected-input'] = 1
        ncmp += 1
        out = ('rejected', tuple(rej))
    else:
        cnt['unexpected-exception'] = 1
        viol.append({'cls': 'unexpected-exception',
                     'what': f'construct_mesh: {status}: {exc}',
                     'observed': repr(exc)})
        out = ('exception', status)
    return {'viol': viol, 'compared': ncmp,
            'transitions': max(1, len(c.get('dev', ()))),
            'nontrivial': out[0] in ('mesh', 'RuntimeError'),
            'outcome': out, 'count': cnt}


def cm_lattice(depth):
    out = []
    for cfg, dev in space.lattice(CM, depth):
        cfg['dev'] = [list(d) for d in dev]
        out.append(cfg)
    return out


# ---------------------------------------------- estimate_gridding_opts: cases
EGO_SURVEYS = ('line', 'spread', 'short', 'wire')
EGO_MODELS = ('iso-cond', 'tri-lgres')
EGO_OPTS = ('empty', 'passthrough', 'vector-xy', 'provided', 'distance',
            'seasurface', 'tiny')


def build_survey(name):
    import emg3d
    if name == 'line':      # one dipole, receiver line along x, 1 frequency
        src = emg3d.TxElectricDipole((-150., 150., 40., 40., -850., -850.))
        rec = emg3d.surveys.txrx_coordinates_to_dict(
            emg3d.RxElectricPoint,
            (np.arange(6)*700.0 + 400, 40.0, -900.0, 0, 0))
        freqs = [0.5]
    elif name == 'spread':  # three sources, 2-D receiver spread, 3 freqs
        src = [emg3d.TxElectricDipole((x, y, -820.0, 30.0, 5.0))
               for x, y in ((-1000., -300.), (200., 500.), (1500., 100.))]
        xx, yy = np.meshgrid([-1500., 0., 1800.], [-900., 0., 1100.])
        rec = emg3d.surveys.txrx_coordinates_to_dict(
            emg3d.RxElectricPoint, (xx.ravel(), yy.ravel(), -900.0, 0, 0))
        freqs = [0.1, 1.0, 4.0]
    elif name == 'wire':    # T-shaped grounded wire (revisits an electrode)
        src = [emg3d.TxElectricWire(
                   ([-400., -100., -800.], [0., -100., -800.],
                    [0., 700., -800.], [0., -100., -800.],
                    [300., -100., -800.])),
               emg3d.TxElectricWire(    # closed loop, two turns
                   ([600., 0., -820.], [900., 0., -820.],
                    [900., 200., -820.], [600., 0., -820.],
                    [900., 0., -820.], [900., 200., -820.],
                    [600., 0., -820.]))]
        rec = emg3d.surveys.txrx_coordinates_to_dict(
            emg3d.RxElectricPoint,
            (np.arange(4)*600.0 - 900, 300.0, -900.0, 0, 0))
        freqs = [0.5, 1.0]
    else:                   # short: point source, two relative receivers
        src = emg3d.TxElectricPoint((300.0, -200.0, -700.0, 20.0, 0.0))
        rec = [emg3d.RxElectricPoint((250.0, 0.0, -50.0, 0, 0),
                                     relative=True),
               emg3d.RxMagneticPoint((600.0, 10.0, -50.0, 90, 0),
                                     relative=True)]
        freqs = [2.0, 8.0]
    return emg3d.Survey(src, rec, freqs)


def build_model(name):
    import emg3d
    from .. import zoo
    hx = np.r_[2000., np.ones(8)*500., 2000.]
    hy = np.r_[1500., np.ones(6)*500., 1500.]
    hz = np.r_[1500., 500., 300., 200., 200., 300., 500., 3000.]
    grid = emg3d.TensorMesh([hx, hy, hz], origin=(-4000., -3000., -3000.))
    shape = tuple(grid.shape_cells)
    if name == 'iso-cond':
        cond = zoo.cell_values(shape, 'rnd', 'x', 0.05, 3.0)
        cond[:, :, -1] = 1e-8                                   # air
        return emg3d.Model(grid, property_x=cond, mapping='Conductivity')
    kw = {}
    for t in 'xyz':
        cond = zoo.cell_values(shape, 'rnd', t, 0.05, 3.0)
        cond[:, :, -1] = 1e-6
        kw['property_'+t] = -np.log10(cond)
    return emg3d.Model(grid, mapping='LgResistivity', **kw)


def ego_opts(name, model):
    if name == 'empty':
        return {}
    if name == 'passthrough':
        return {'stretching': [1.05, 1.4], 'min_width_limits': [30., 400.],
                'min_width_pps': (3, 4, 5), 'lambda_factor': 0.7,
                'max_buffer': 40000, 'lambda_from_center': True,
                'cell_numbers': [16, 32, 48, 64, 96, 128, 192, 256],
                'center_on_edge': (False, True, False)}
    if name == 'vector-xy':
        return {'vector': 'xy', 'center_on_edge': False}
    if name == 'provided':
        return {'frequency': 3.0, 'center': (10.0, 20.0, -600.0),
                'properties': [0.3, 1.0, 1e5],
                'mapping': 'Resistivity',
                'domain': ([-1000., 1000.], None, [-1500., -200.]),
                'center_on_edge': True}
    if name == 'distance':
        return {'distance': {'y': None, 'x': [800., 900.], 'z': None},
                'center_on_edge': {'z': True, 'x': True, 'y': False}}
    if name == 'seasurface':
        return {'seasurface': 0.0, 'center_on_edge': False,
                'vector': (None, None, model.grid.nodes_z[:-1])}
    if name == 'tiny':
        return {'cell_numbers': [8, 12], 'center_on_edge': True}
    raise ValueError(name)


def case_ego(c):
    import emg3d
    from emg3d import meshes
    survey = build_survey(c['survey'])
    model = build_model(c['model'])
    grid = model.grid
    given = ego_opts(c['opts'], model)
    inp = {k: (v.copy() if isinstance(v, np.ndarray) else v)
           for k, v in given.items()}
    status, g, msgs, exc = run_guarded(
        meshes.estimate_gridding_opts, inp, model, survey)
    viol, ncmp = [], 0

    def bad(cls, what, observed=None, expected=None):
        viol.append({'cls': cls, 'what': what, 'observed': observed,
                     'expected': expected})

    if status != 'ok':
        bad('estimate-unexpected-exception', f'{status}: {exc}')
        return {'viol': viol, 'compared': 1, 'outcome': ('exception', status)}

    # frequency / centre / mapping
    freqs = np.array(list(survey.frequencies.values()), dtype=float)
    f_ref = given.get('frequency', float(np.exp(np.mean(np.log(freqs)))))
    def own_center(s):
        # documented: centre point of all UNIQUE electrodes
        return np.mean(sorted({tuple(map(float, p_)) for p_ in s.points}),
                       axis=0)
    src_c = np.array([own_center(s) for s in survey.sources.values()])
    c_ref = np.array(given.get('center', src_c.mean(0)), dtype=float)
    m_ref = given.get('mapping', model.map.name)
    ncmp += 3
    if not np.isclose(g['frequency'], f_ref, rtol=1e-12):
        bad('estimate-frequency', 'frequency is not the log10-average',
            g['frequency'], f_ref)
    if not np.allclose(g['center'], c_ref, rtol=0, atol=1e-9):
        bad('estimate-center', 'center is not the mean source centre',
            g['center'], c_ref)
    if g['mapping'] != m_ref:
        bad('estimate-mapping', 'mapping not taken from the model',
            g['mapping'], m_ref)

    # pass-through values
    for k in ('seasurface', 'cell_numbers', 'lambda_factor', 'max_buffer',
              'lambda_from_center', 'stretching', 'min_width_limits',
              'min_width_pps', 'center_on_edge'):
        ncmp += 1
        if k not in given:
            if k in g:
                bad('estimate-passthrough', f'{k} invented', g[k])
            continue
        want = given[k]
        if isinstance(want, (list, tuple)) and len(want) == 3:
            want = dict(zip('xyz', want))
        if k not in g or repr(g[k]) != repr(want):
            bad('estimate-passthrough', f'{k} not passed along unchanged',
                g.get(k), want)

    # properties
    mcond = {'Conductivity': lambda v: v,
             'LgResistivity': lambda v: 10**(-v)}[model.map.name]
    comps = [mcond(getattr(model, 'property_'+t)) for t in 'xyz'
             if getattr(model, 'property_'+t) is not None]
    ncmp += 1
    if 'properties' in given:
        if list(g['properties']) != list(given['properties']):
            bad('estimate-properties', 'provided properties changed',
                g['properties'], given['properties'])
    else:
        def lowest(ix, iy, iz):
            return min(float(np.min(cc[ix, iy, iz])) for cc in comps)
        s_ = slice(None)
        want = [lowest(0, s_, s_), lowest(-1, s_, s_), lowest(s_, 0, s_),
                lowest(s_, -1, s_), lowest(s_, s_, 0), lowest(s_, s_, -1)]
        got = ref_conductivity(g['properties'], g['mapping'])
        if len(got) != 7 or not np.allclose(got[1:], want, rtol=1e-9):
            bad('estimate-properties', 'buffer properties are not the lowest '
                'conductivity of the outermost layers (x-,x+,y-,y+,z-,z+)',
                got.tolist(), want)
        else:
            # source property: lowest conductivity of a cell at the centre
            idx = []
            for d, nod in enumerate((grid.nodes_x, grid.nodes_y,
                                     grid.nodes_z)):
                k = int(np.argmin(abs(nod - c_ref[d])))
                idx.append([i for i in (k-1, k) if 0 <= i < nod.size-1])
            cand = [lowest(i, j, k) for i in idx[0] for j in idx[1]
                    for k in idx[2]]
            if not any(np.isclose(got[0], v, rtol=1e-9) for v in cand):
                bad('estimate-properties', 'properties[0] is not the lowest '
                    'conductivity of a cell next to the centre', got[0], cand)

    # domain
    pts = [own_center(s) for s in survey.sources.values()]
    for s in survey.sources.values():
        pts += [np.asarray(r.center) + (own_center(s) if r.relative else 0.)
                for r in survey.receivers.values()]
    pts = np.array(pts, dtype=float)
    gdom = g['domain']
    gdom = [gdom[k] for k in 'xyz'] if isinstance(gdom, dict) else list(gdom)
    gvec = given.get('vector')
    if isinstance(gvec, str):
        gvec = tuple(n if t in gvec else None for t, n in
                     zip('xyz', (grid.nodes_x, grid.nodes_y, grid.nodes_z)))
    gdis = given.get('distance')
    if isinstance(gdis, dict):
        gdis = [gdis[k] for k in 'xyz']
    pdom = given.get('domain')
    fromsurvey, width = [], []
    for d in range(3):
        ncmp += 1
        ext = [pts[:, d].min(), pts[:, d].max()]
        if pdom is not None and pdom[d] is not None:
            exp = list(pdom[d])
        elif gdis is not None and gdis[d] is not None:
            exp = None
            width.append(abs(gdis[d][0]) + abs(gdis[d][1]))
        elif gvec is not None and gvec[d] is not None:
            exp = [float(np.min(gvec[d])), float(np.max(gvec[d]))]
        else:
            exp = 'survey'
        if exp == 'survey':
            fromsurvey.append(d)
            pad = 0.1*(ext[1]-ext[0]) if d < 2 else 0.0   # z: extent only
            if gdom[d] is None or gdom[d][0] > ext[0] - pad + 1e-9 or \
                    gdom[d][1] < ext[1] + pad - 1e-9:
                bad('estimate-domain-misses-survey',
                    f"direction {'xyz'[d]}: domain does not contain the "
                    f'extent of sources and receivers' +
                    (' plus 10 %' if d < 2 else ''), gdom[d],
                    [ext[0]-pad, ext[1]+pad])
            elif d < 2 and abs((gdom[d][0] + gdom[d][1]) -
                               (ext[0] + ext[1])) > 1e-6:
                bad('estimate-domain-not-symmetric',
                    f"direction {'xyz'[d]}: horizontal domain not expanded "
                    f'symmetrically', gdom[d], ext)
            width.append(None if gdom[d] is None else gdom[d][1]-gdom[d][0])
        elif exp is None:
            if gdom[d] is not None:
                bad('estimate-domain', f"direction {'xyz'[d]}: domain set "
                    f'although distance was provided', gdom[d], None)
        else:
            width.append(exp[1] - exp[0])
            if gdom[d] is None or not np.allclose(gdom[d], exp):
                bad('estimate-domain', f"direction {'xyz'[d]}: domain not "
                    f'taken from the provided domain/vector', gdom[d], exp)
    # ratio rules (rounded to metres by the implementation: 2 m / 10 m slack)
    if len(width) == 3 and None not in width:
        wx, wy, wz = width
        ncmp += 2
        if (1 in fromsurvey and wy < wx/3 - 2) or \
                (0 in fromsurvey and wx < wy/3 - 2):
            bad('estimate-domain-ratio', 'horizontal dimensions differ by '
                'more than the ratio of 3', [wx, wy])
        if 2 in fromsurvey and wz < min(max(wx, wy), 10000.)/2 - 10:
            bad('estimate-domain-ratio', 'vertical dimension smaller than '
                'half the horizontal one (or 5 km)', [wx, wy, wz])

    # construct the mesh from the estimate and apply the mesh oracle
    st2, mesh, msgs2, exc2 = run_guarded(emg3d.construct_mesh, **g)
    if st2 == 'ok':
        per = route_gopts(g)
        for d in range(3):
            v, n, _ = oracle_1d(per[d], float(mesh.origin[d]),
                                np.asarray(mesh.h[d]), msgs2)
            for vv in v:
                vv['what'] = f"direction {'xyz'[d]}: " + vv['what']
            viol += v
            ncmp += n
        out = ('mesh',) + tuple(int(n) for n in mesh.shape_cells)
        cnt = {'mesh': 1}
    elif st2 == 'RuntimeError':
        out, cnt = ('RuntimeError',), {'loud-failure': 1}
    else:
        bad('unexpected-exception', f'construct_mesh(**estimate): {st2}: '
            f'{exc2}')
        out, cnt = ('exception', st2), {}
    return {'viol': viol, 'compared': ncmp, 'transitions': 2,
            'nontrivial': True, 'outcome': out, 'count': cnt}


def route_gopts(g):
    """Per-direction parameters of an estimate_gridding_opts result."""
    per = []
    prop = list(np.ravel(g['properties']))
    route = {1: [[0]]*3, 2: [[0, 1]]*3,
             3: [[0, 2, 2], [0, 2, 2], [0, 1, 2]],
             4: [[0, 1, 1], [0, 1, 1], [0, 2, 3]],
             7: [[0, 1, 2], [0, 3, 4], [0, 5, 6]]}[len(prop)]

    def pick(v, d, scalar_ok=True):
        if v is None:
            return None
        if isinstance(v, dict):
            return v['xyz'[d]]
        if isinstance(v, (list, tuple)) and len(v) == 3:
            return v[d]
        return v
    for d in range(3):
        p = {'frequency': g['frequency'], 'center': float(g['center'][d]),
             'mapping': g['mapping'],
             'properties': [float(prop[i]) for i in route[d]],
             'seasurface': g.get('seasurface') if d == 2 else None}
        for k in ('domain', 'distance', 'vector', 'stretching',
                  'min_width_limits', 'min_width_pps'):
            v = pick(g.get(k), d)
            p[k] = None if v is None else np.asarray(v).tolist()
        coe = g.get('center_on_edge', 'notset')
        coe = pick(coe, d) if not isinstance(coe, (bool, str)) else coe
        p['center_on_edge'] = 'notset' if coe is None else coe
        for k in ('lambda_factor', 'max_buffer', 'lambda_from_center',
                  'cell_numbers'):
            p[k] = g.get(k)
        per.append(p)
    return per


# ------------------------------------------------------------------- driver
# ------------------------------------- warnings, one construction after another
FN_WH = 'mc.checks.c16_gridding:case_warnhist'
# R: sea surface reachable (becomes a node); U1, U2: cannot become a node
# with the requested widths -> the documented warning has to be raised, every
# time, not only for the first such mesh of the process.
WH_BASE = {'frequency': 1.0, 'properties': [0.3, 1.0, 1e8],
           'domain': [[-500, 500], [-500, 500], [-2000, -500]],
           'min_width_limits': 100, 'stretching': [1.0, 1.3],
           'center_on_edge': False, 'verb': 0}
WH_OPS = {'R': dict(WH_BASE, center=(0, 0, -1000), seasurface=-850.0),
          'U1': dict(WH_BASE, center=(0, 0, -1000), seasurface=-870.0),
          'U2': dict(WH_BASE, center=(0, 0, -1150), seasurface=-960.0),
          'N': dict(WH_BASE, center=(0, 0, -1000))}


def case_warnhist(c):
    import subprocess
    import sys as _sys
    root = os.path.dirname(os.path.dirname(os.path.dirname(
        os.path.abspath(__file__))))
    hist = [WH_OPS[o] for o in c['hist']]
    env = dict(os.environ)
    env.pop('PYTHONWARNINGS', None)
    p = subprocess.run([_sys.executable, '-m', 'mc.warnchild',
                        json.dumps(hist)], cwd=root, env=env,
                       capture_output=True, text=True, timeout=600)
    if p.returncode != 0:
        return {'viol': [{'cls': 'construction-history-raised',
                          'what': f"{c['hist']}: {p.stderr[-600:]}"}],
                'compared': 1, 'nontrivial': True}
    out = json.loads(p.stdout.strip().split('\n')[-1])
    viol = []
    tags = []
    for i, (o, r) in enumerate(zip(c['hist'], out)):
        if o == 'N':
            tags.append('-')
            continue
        warned = any(SS_MSG in m for m in r['shown'])
        tags.append('node' if r['node'] else 'warned' if warned else 'silent')
        if not r['node'] and not warned:
            viol.append({
                'cls': 'seasurface-neither-node-nor-warning',
                'what': f"history {c['hist']}, construction {i} ({o}): sea "
                        'surface is no node of the mesh and no warning was '
                        'shown under emg3d\'s own warning filters (shown: '
                        f"{r['shown']})"})
    return {'viol': viol, 'compared': len(out), 'transitions': len(out),
            'nontrivial': 'silent' in tags or 'warned' in tags,
            'outcome': tuple(tags)}


def cases_warnhist(tier):
    out = []
    for n in (1, 2, 3):
        for h in itertools.product(sorted(WH_OPS), repeat=n):
            if n == 3 and tier == 'quick' and 'N' in h:
                continue
            out.append({'hist': list(h)})
    return out


def prepare(ctx):
    import emg3d.meshes           # imported once, inherited by the workers
    return emg3d.meshes


def run(ctx):
    prepare(ctx)
    ctx.assume(
        "continuous inputs come from the finite alphabets of DESIGN.md 3/C16 "
        "(4 frequencies incl. a Laplace one, property lists of length "
        "1,2,3,4,7 in 6 mappings, 3 centres, 2 domains, 1 distance pair, 4-5 "
        "node vectors, 3-5 stretching pairs, ...); vectors are sorted",
        "survey domain when several are given: domain > distance > vector "
        "(as in estimate_gridding_opts' documentation)",
        "lambda_from_center: the two-wavelength rule is only demanded on "
        "sides where the centre does not lie beyond the survey domain",
        "a provided vector is taken as 'must be honoured' if >= 3 of its "
        "nodes lie in the domain and as 'dropped' if none does; in between "
        "either the vector nodes or the centre rule must hold",
        "stretching inside a kept vector is the user's; sea-surface "
        "allowance 1.1 (no vector, centre at cell centre) or 1.25",
        "the converse of 'fails loudly' (RuntimeError only if no admissible "
        "mesh exists) is not decided",
        "tolerances: 1e-6 m for node positions / coverage, 1e-9 relative for "
        "width ratios and the minimum width")
    q = ctx.quick
    total = ctx.budget or (340 if q else 1760)
    t_start = ctx.elapsed()

    def cap(share):
        """Time cap: cumulative share of the budget minus what is used."""
        return max(5.0, share*total - (ctx.elapsed() - t_start))

    if ctx.wants('oaw-lattice'):
        depth = 3 if q else 4
        cs = oaw_lattice(depth, 2 if q else None)
        ctx.explore('oaw-lattice', FN_OAW, cs, engine='E1',
                    rule=f'origin_and_widths: all configurations with <= '
                         f'{depth} non-default parameters out of 15 '
                         f'(alphabets of DESIGN 3/C16 plus lattice-only '
                         f'extras' + ('; 4 of the 18 property/mapping values '
                                      'at depth 3' if q else '') +
                         '); non-trivial = mesh returned or RuntimeError',
                    time_cap=cap(0.40 if q else 0.30))
    prods = oaw_products(ctx.tier)
    shares = {'domain': 0.46, 'buffer': 0.58, 'width': 0.78} if q else \
        {'domain': 0.38, 'stretch': 0.46, 'buffer': 0.62, 'width': 0.78}
    for name, cs in prods.items():
        if ctx.wants('oaw-product-'+name):
            ctx.explore('oaw-product-'+name, FN_OAW, cs, engine='E1',
                        rule=f'origin_and_widths: full product of the '
                             f'{name}-related parameters ('
                             f'{len(cs)} cases), others default',
                        time_cap=cap(shares[name]))
    if ctx.wants('construct-mesh'):
        depth = 2 if q else 3
        cs = cm_lattice(depth)
        ctx.explore('construct-mesh', FN_CM, cs, engine='E1',
                    rule=f'construct_mesh: <= {depth} deviations over the '
                         f'per-direction input formats of 13 arguments; every '
                         f'direction judged with checker-side routing and '
                         f'compared with origin_and_widths called directly',
                    time_cap=cap(0.96))
    if ctx.wants('estimate-opts'):
        cs = [{'survey': s_, 'model': m_, 'opts': o}
              for o in EGO_OPTS for s_ in EGO_SURVEYS for m_ in EGO_MODELS]
        ctx.explore('estimate-opts', FN_EGO, cs, engine='E1',
                    rule=f'estimate_gridding_opts: 4 surveys (one with wires that revisit electrodes) x 2 models x '
                         f'{len(EGO_OPTS)} option sets, then '
                         f'construct_mesh(**opts)',
                    time_cap=cap(1.0))
    if ctx.wants('warning-histories'):
        ctx.explore('warning-histories', FN_WH, cases_warnhist(ctx.tier),
                    engine='E2',
                    rule='all histories of length <= 3 over {reachable sea '
                         'surface, two unreachable ones, none} of '
                         'construct_mesh calls in ONE fresh interpreter '
                         'under emg3d\'s own warning filters (quick: length '
                         '3 without "none"): every construction is a node '
                         'or shows the warning itself',
                    time_cap=cap(1.0), chunksize=1)
