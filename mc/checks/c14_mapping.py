"""C14 - the physical model is invariant under the property mapping; the chain
rule is exact; non-positive / non-finite values are rejected.

Engine E1, four explorations:

``maps``      6 mappings x (49 conductivities on a 4-per-decade grid over
              1e-8..1e4 S/m, each as NumPy scalar, plus one Fortran-ordered
              3-D array holding all of them): forward / backward against an
              independent reference, both round trips, ``derivative_chain``
              against the analytic d(sigma)/d(m) and a central difference of
              the real ``backward``.
``volmodel``  full product (49 single-value models + 1 heterogeneous model) x
              6 mappings x 4 anisotropy cases x {-, mu_r} x {-, eps_r} x
              {f > 0, f < 0}: ``VolumeModel`` eta_x/y/z and zeta of the mapped
              model == those of the Conductivity model == reference computed
              from widths, conductivities and scipy.constants.
``reject``    rejection table property x mapping x value token x mode
              (construction scalar / full array / flat array, assignment
              scalar / array; bad entry first, middle, last), verdict from an
              independent evaluation of the conductivity; rejected assignment
              leaves the stored array untouched; assignment to an absent
              property is refused.
``solve``     4 cases x {-, mu_r} x {-, eps_r} x {f > 0, f < 0} (x shapes /
              profiles): ``emg3d.solve`` fields and ``Simulation`` data of the
              same conductivities in all six mappings agree with each other
              and with a direct solve of the reference operator; the
              Simulation gradient in mapping m equals the Conductivity
              gradient times d(sigma)/d(m).
"""
import itertools
import warnings

import numpy as np
from scipy.constants import mu_0, epsilon_0

from .. import zoo, impl
from ..refmodel import fit

FN_MAPS = 'mc.checks.c14_mapping:case_maps'
FN_VOL = 'mc.checks.c14_mapping:case_volmodel'
FN_REJ = 'mc.checks.c14_mapping:case_reject'
FN_SOLVE = 'mc.checks.c14_mapping:case_solve'
FN_GRID = 'mc.checks.c14_mapping:case_autogrid'

MAPPINGS = zoo.MAPPINGS
NSIG = 49
# 4 per decade over 12 decades, 1e-8 S/m (air) .. 1e4 S/m
SIGMAS = 10.0**(np.arange(-32, 17)/4.0)
PROPS = ('property_x', 'property_y', 'property_z', 'mu_r', 'epsilon_r')
LN10 = 2.302585092994045684


# ------------------------------------------------------------------ reference
def ref_forward(name, sig):
    """Conductivity -> mapped parameter (independent of emg3d.maps)."""
    sig = np.asarray(sig, dtype=float)
    if name == 'Conductivity':
        return sig.copy()
    if name == 'Resistivity':
        return np.reciprocal(sig)
    if name == 'LgConductivity':
        return np.log(sig)/LN10
    if name == 'LgResistivity':
        return -np.log(sig)/LN10
    if name == 'LnConductivity':
        return np.log(sig)
    if name == 'LnResistivity':
        return -np.log(sig)
    raise ValueError(name)


def ref_backward(name, m):
    """Mapped parameter -> conductivity (independent of emg3d.maps)."""
    m = np.asarray(m, dtype=float)
    if name == 'Conductivity':
        return m.copy()
    if name == 'Resistivity':
        return np.reciprocal(m)
    if name == 'LgConductivity':
        return np.exp(m*LN10)
    if name == 'LgResistivity':
        return np.exp(-m*LN10)
    if name == 'LnConductivity':
        return np.exp(m)
    if name == 'LnResistivity':
        return np.exp(-m)
    raise ValueError(name)


def ref_dsig_dm(name, sig):
    """Analytic d(sigma)/d(m), expressed in the conductivity."""
    sig = np.asarray(sig, dtype=float)
    return {'Conductivity': np.ones_like(sig),
            'Resistivity': -sig*sig,            # sigma = 1/rho
            'LgConductivity': LN10*sig,
            'LgResistivity': -LN10*sig,
            'LnConductivity': sig,
            'LnResistivity': -sig}[name]


def _relerr(a, b, floor=0.0):
    """max |a-b| / max(|b|, floor), entry by entry (nan -> inf)."""
    a = np.asarray(a)
    b = np.asarray(b)
    if a.shape != b.shape:
        return np.inf
    den = np.maximum(np.abs(b), floor)
    with np.errstate(all='ignore'):
        e = np.abs(a - b)/np.where(den == 0, 1.0, den)
    e = np.where(np.isfinite(e), e, np.inf)
    return float(e.max()) if e.size else 0.0


def _quiet():
    warnings.simplefilter('ignore')
    return np.errstate(all='ignore')


# ----------------------------------------------------------------------- maps
def cases_maps(tier):
    out = []
    for mp in MAPPINGS:
        for k in range(NSIG):
            out.append({'mapping': mp, 'k': k, 'kind': 'scalar'})
        out.append({'mapping': mp, 'k': 'all', 'kind': 'array'})
        if tier != 'quick':
            for k in range(NSIG):
                out.append({'mapping': mp, 'k': k, 'kind': 'array1'})
            out.append({'mapping': mp, 'k': 'all', 'kind': 'view'})
    return out


def case_maps(c):
    import emg3d
    mp = c['mapping']
    amap = getattr(emg3d.maps, 'Map'+mp)()
    viol = []
    compared = 0

    if c['k'] == 'all':
        sig = np.asfortranarray(SIGMAS.reshape((7, 7, 1)))
    elif c['kind'] == 'scalar':
        sig = np.float64(SIGMAS[c['k']])
    else:
        sig = np.array([SIGMAS[c['k']]])
    mref = ref_forward(mp, sig)

    def bad(cls, what, obs=None, exp=None):
        viol.append({'cls': cls, 'what': f'{mp}: {what}', 'observed': obs,
                     'expected': exp})

    with warnings.catch_warnings(), _quiet():
        # forward / backward against the reference
        m = amap.forward(sig)
        e = _relerr(m, mref, 1.0)
        compared += 1
        if not e <= 1e-12:
            bad('forward-differs-from-definition',
                f'forward(sigma) off by {e:.2e}', m, mref)
        s = amap.backward(mref)
        e = _relerr(s, sig)
        compared += 1
        if not e <= 1e-12:
            bad('backward-differs-from-definition',
                f'backward(m) off by {e:.2e} (relative)', s, sig)
        # round trips (real code only)
        e = _relerr(amap.backward(amap.forward(sig)), sig)
        compared += 1
        if not e <= 1e-12:
            bad('roundtrip-backward-forward', f'b(f(sigma)) off by {e:.2e}')
        e = _relerr(amap.forward(amap.backward(mref)), mref, 1.0)
        compared += 1
        if not e <= 1e-12:
            bad('roundtrip-forward-backward', f'f(b(m)) off by {e:.2e}')
        # the model name the Model class selects the map by
        if amap.name != mp:
            bad('map-name', f'name {amap.name!r}')

        # chain rule: in-place multiplication by d(sigma)/d(m)
        fac_ref = ref_dsig_dm(mp, sig)
        marr = np.array(mref, dtype=float, order='F', ndmin=1)
        mkeep = marr.copy()
        shape = marr.shape
        gvals = np.array([1.0, -2.5, 3e3, 7e-5])
        gin = gvals[np.arange(marr.size) % 4].reshape(shape, order='F')
        if c['kind'] == 'view':      # as Simulation.gradient passes it
            big = np.zeros((3, *shape), order='F')
            big[1, ...] = gin
            big[0, ...] = 11.0
            big[2, ...] = 13.0
            g = big[1, ...]
        else:
            g = np.array(gin, order='F')
        ret = amap.derivative_chain(g, marr)
        gexp = gin*np.reshape(fac_ref, shape)
        e = _relerr(g, gexp)
        compared += marr.size
        if not e <= 1e-12:
            bad('derivative-chain-differs-from-analytic',
                f'gradient factor off by {e:.2e} (relative)',
                (g/gin).ravel('F')[:5], np.ravel(fac_ref)[:5])
        if ret is not None:
            bad('derivative-chain-not-in-place',
                'derivative_chain returned something')
        if not np.array_equal(marr, mkeep):
            bad('derivative-chain-modifies-model',
                'mapped values changed by derivative_chain')
        if c['kind'] == 'view' and not (np.all(big[0] == 11.0) and
                                        np.all(big[2] == 13.0)):
            bad('derivative-chain-touches-other-components',
                'neighbouring gradient components changed')
        # ... and equals a central difference of the real backward map
        h = 1e-6*np.maximum(np.abs(mkeep), 1.0) if mp.startswith('L') \
            else 1e-6*np.abs(mkeep)
        fd = (amap.backward(mkeep + h) - amap.backward(mkeep - h))/(2*h)
        g1 = np.ones(shape, order='F')
        amap.derivative_chain(g1, mkeep.copy())
        e = _relerr(g1, fd)
        compared += marr.size
        if not e <= 1e-6:
            bad('derivative-chain-differs-from-difference-quotient',
                f'factor vs central difference of backward: {e:.2e}',
                g1.ravel('F')[:5], fd.ravel('F')[:5])
    f0 = float(np.ravel(fac_ref)[0])
    return {'viol': viol, 'compared': compared, 'transitions': 6,
            'nontrivial': mp != 'Conductivity',
            'outcome': (mp, int(np.sign(f0)),
                        int(np.floor(np.log10(abs(f0)) + 0.5)))}


# ------------------------------------------------------------------- volmodel
def sig_components(k, shape):
    """Pairwise different conductivity arrays (x, y, z) from SIGMAS."""
    n = int(np.prod(shape))
    if k == 'all':
        idx = np.arange(n)
        ix, iy, iz = (idx*11) % NSIG, (idx*23 + 5) % NSIG, (idx*37 + 9) % NSIG
    else:
        ix = np.full(n, k)
        iy = np.full(n, (k + 17) % NSIG)
        iz = np.full(n, (k + 31) % NSIG)
    return [SIGMAS[i].reshape(shape, order='F') for i in (ix, iy, iz)]


def build_model(grid, mp, case, sig, mu, eps):
    import emg3d
    kw = {'property_x': ref_forward(mp, sig[0])}
    if case in ('HTI', 'triaxial'):
        kw['property_y'] = ref_forward(mp, sig[1])
    if case in ('VTI', 'triaxial'):
        kw['property_z'] = ref_forward(mp, sig[2])
    if mu is not None:
        kw['mu_r'] = mu
    if eps is not None:
        kw['epsilon_r'] = eps
    return emg3d.Model(grid, mapping=mp, **kw)


def eff_sigmas(case, sig):
    sx, sy, sz = sig
    if case in ('isotropic', 'VTI'):
        sy = sx
    if case in ('isotropic', 'HTI'):
        sz = sx
    return sx, sy, sz


def cases_volmodel(tier):
    out = []
    freqs = (10.0, -50.0) if tier == 'quick' else (10.0, -50.0, 0.01, 1e4)
    for k in list(range(NSIG)) + ['all']:
        for mp in MAPPINGS:
            for case_ in zoo.CASES:
                for mu in (False, True):
                    for eps in (False, True):
                        for f in freqs:
                            out.append({'k': k, 'mapping': mp, 'case': case_,
                                        'mu_r': mu, 'eps_r': eps, 'freq': f})
    return out


def case_volmodel(c):
    import emg3d
    mp, case_, freq = c['mapping'], c['case'], c['freq']
    shape = (5, 5, 2) if c['k'] == 'all' else (2, 3, 2)
    grid = zoo.mesh({'shape': shape, 'w': 'mix'})
    sig = sig_components(c['k'], shape)
    mu = zoo.cell_values(shape, 'rnd', 'm', 0.5, 3.0) if c['mu_r'] else None
    eps = zoo.cell_values(shape, 'rnd', 'e', 1e6, 1e8) if c['eps_r'] else None
    viol = []
    compared = 0

    def bad(cls, what, obs=None, exp=None):
        viol.append({'cls': cls, 'what': f'{mp}/{case_}: {what}',
                     'observed': obs, 'expected': exp})

    with warnings.catch_warnings(), _quiet():
        model = build_model(grid, mp, case_, sig, mu, eps)
        cmodel = build_model(grid, 'Conductivity', case_, sig, mu, eps)
        keep = {p: None if getattr(model, p) is None
                else getattr(model, p).copy() for p in PROPS}
        sfield = emg3d.Field(grid, frequency=freq)
        vm = emg3d.models.VolumeModel(model, sfield)
        vc = emg3d.models.VolumeModel(cmodel, sfield)

    if model.map.name != mp or model.case != case_ or vm.case != case_:
        bad('model-mapping-or-case-wrong',
            f'map {model.map.name}, case {model.case}/{vm.case}')
    for p in PROPS:
        now = getattr(model, p)
        if (now is None) != (keep[p] is None) or (
                now is not None and not np.array_equal(now, keep[p])):
            bad('volumemodel-modifies-model', f'{p} changed by VolumeModel')

    # reference coefficients from widths and constants only
    s = zoo.sval_of(freq)
    h = grid.h
    vol = h[0][:, None, None]*h[1][None, :, None]*h[2][None, None, :]
    esig = eff_sigmas(case_, sig)
    ref = {}
    for d, n in enumerate('xyz'):
        adm = esig[d] if eps is None else esig[d] + s*epsilon_0*eps
        ref['eta_'+n] = -s*mu_0*vol*adm
    ref['zeta'] = vol if mu is None else vol/mu

    worst = 0.0
    for n in ('eta_x', 'eta_y', 'eta_z', 'zeta'):
        a, b, r = getattr(vm, n), getattr(vc, n), ref[n]
        if a is None or np.shape(a) != shape:
            bad('volumemodel-coefficient-missing', f'{n} is {type(a)}')
            continue
        for part in (np.real, np.imag):
            rr = part(r)
            if not np.any(rr):
                if np.any(part(a)):
                    bad('volumemodel-differs-from-reference',
                        f'{n}: non-zero {part.__name__} part')
                continue
            e1 = _relerr(part(a), part(b))
            e2 = _relerr(part(a), rr)
            compared += 2*a.size
            worst = max(worst, e1, e2)
            if not e1 <= 1e-12:
                bad('volumemodel-differs-from-conductivity-model',
                    f'{n} ({part.__name__}) of the mapped model vs the '
                    f'Conductivity model: {e1:.2e} (relative, per cell)',
                    part(a).ravel('F')[:4], part(b).ravel('F')[:4])
            if not e2 <= 1e-12:
                bad('volumemodel-differs-from-reference',
                    f'{n} ({part.__name__}) vs -s mu0 V (sigma + s eps) / '
                    f'V/mu_r: {e2:.2e} (relative, per cell)',
                    part(a).ravel('F')[:4], rr.ravel('F')[:4])
    return {'viol': viol, 'compared': compared, 'transitions': 2,
            'nontrivial': True,
            'count': {'mapped_vs_conductivity': int(mp != 'Conductivity')},
            'outcome': (mp, case_, bool(c['mu_r']), bool(c['eps_r']),
                        freq > 0, worst <= 1e-12)}


# --------------------------------------------------------------------- reject
TOKENS = ('0', '-1', 'nan', 'inf', '-inf', '400', '-400', '800', '-800',
          '1e-320', '2.5', '0.004', '-3.5')
GOOD = {'property_x': 1.7, 'property_y': 0.6, 'property_z': 2.9,
        'mu_r': 1.3, 'epsilon_r': 4.0}       # valid in every mapping


def verdict(prop, mp, value):
    """'reject' | 'accept' | 'free' from an independent evaluation.

    reject: conductivity / mu_r / epsilon_r not positive or not finite;
    accept: value inside the range the property quantifies over; free:
    positive and finite but outside it (either behaviour is allowed)."""
    with np.errstate(all='ignore'):
        if prop.startswith('property_'):
            v = float(ref_backward(mp, value))
            lo, hi = 1e-8*(1 - 1e-9), 1e4*(1 + 1e-9)
        else:
            v = float(value)
            lo, hi = 1e-8, 1e8
    if not (np.isfinite(v) and v > 0):
        return 'reject'
    return 'accept' if lo <= v <= hi else 'free'


def cases_reject(tier):
    out = []
    poss = (0, 'mid', -1)
    for prop in PROPS:
        for mp in MAPPINGS:
            for tok in TOKENS:
                for mode in ('init-scalar', 'set-scalar'):
                    out.append({'prop': prop, 'mapping': mp, 'value': tok,
                                'mode': mode, 'pos': None})
                for mode in ('init-array', 'init-flat', 'set-array',
                             'set-inplace', 'set-view'):
                    for pos in poss:
                        out.append({'prop': prop, 'mapping': mp,
                                    'value': tok, 'mode': mode, 'pos': pos})
            if prop != 'property_x':
                for tok in ('2.5', '0', 'nan'):
                    for arr in (False, True):
                        out.append({'prop': prop, 'mapping': mp,
                                    'value': tok, 'mode': 'set-absent',
                                    'pos': 0 if arr else None})
    return out


def case_reject(c):
    import emg3d
    prop, mp, mode = c['prop'], c['mapping'], c['mode']
    value = float(c['value'])
    shape = (2, 3, 2)
    grid = zoo.mesh({'shape': shape, 'w': 'uni'})
    n = int(np.prod(shape))
    viol = []

    def bad(cls, what, obs=None, exp=None):
        viol.append({'cls': cls, 'what': f'{prop}={c["value"]} ({mp}, {mode}'
                     f', pos {c["pos"]}): {what}', 'observed': obs,
                     'expected': exp})

    def good_array(p):
        # distinct valid values in every mapping
        return (GOOD[p]*(1 + 0.01*np.arange(n))).reshape(shape, order='F')

    # the value offered to the model
    if c['pos'] is None:
        offered = value
    else:
        offered = good_array(prop)
        pos = {0: 0, -1: n-1, 'mid': n//2}[c['pos']]
        offered[np.unravel_index(pos, shape, order='F')] = value
        if mode == 'init-flat':
            offered = offered.ravel('F')
    want = verdict(prop, mp, value)

    with warnings.catch_warnings(), _quiet():
        if mode.startswith('init'):
            kw = {'property_x': good_array('property_x')}
            kw[prop] = offered
            try:
                model = emg3d.Model(grid, mapping=mp, **kw)
                got = 'accept'
            except ValueError:
                got = 'reject'
            if got == 'accept':
                stored = getattr(model, prop)
                exp = np.broadcast_to(np.reshape(offered, shape, order='F')
                                      if np.ndim(offered) else offered, shape)
                if not np.array_equal(stored, exp, equal_nan=True):
                    bad('model-stores-other-values',
                        'accepted values are not the stored values')
        else:
            kw = {p: good_array(p) for p in PROPS}
            if mode == 'set-absent':
                del kw[prop]
                want = 'reject'
            model = emg3d.Model(grid, mapping=mp, **kw)
            before = getattr(model, prop)
            snap = None if before is None else before.copy()
            if mode in ('set-inplace', 'set-view'):
                # what ``model.prop op= ...`` / ``model.prop[i] = v;
                # model.prop = model.prop`` do: the setter is handed the
                # array the model returned (or a view of it), already
                # edited in place
                stored = getattr(model, prop)
                stored[np.unravel_index(pos, shape, order='F')] = value
                offered = stored if mode == 'set-inplace' else stored[...]
                snap = None
            try:
                setattr(model, prop, offered)
                got = 'accept'
            except ValueError:
                got = 'reject'
            after = getattr(model, prop)
            if got == 'reject' and snap is None and mode != 'set-absent':
                pass        # the in-place edit itself is the caller's doing
            elif got == 'reject':
                same = (after is None and snap is None) or (
                    after is not None and snap is not None and
                    np.array_equal(after, snap))
                if not same:
                    bad('rejected-assignment-changed-model',
                        'stored array differs after the refused assignment',
                        None if after is None else after.ravel('F')[:4],
                        None if snap is None else snap.ravel('F')[:4])
            else:
                exp = np.broadcast_to(offered, shape)
                if after is None or not np.array_equal(after, exp,
                                                       equal_nan=True):
                    bad('accepted-assignment-not-stored',
                        'stored array is not the assigned one')
            for p in PROPS:     # the other properties are never touched
                if p != prop and p in kw and not np.array_equal(
                        getattr(model, p), kw[p]):
                    bad('assignment-changed-other-property', f'{p} changed')

    if want == 'reject' and got != 'reject':
        cls = ('assignment-to-absent-property-accepted'
               if mode == 'set-absent' else
               'bad-value-accepted-at-construction' if mode.startswith('init')
               else 'bad-value-accepted-on-assignment')
        bad(cls, 'no ValueError', got, want)
    if want == 'accept' and got != 'accept':
        bad('valid-value-rejected', 'ValueError for a positive finite value '
            'inside the supported range', got, want)
    return {'viol': viol, 'compared': 1, 'transitions': 1,
            'nontrivial': want != 'free',
            'count': {'must_reject': int(want == 'reject'),
                      'must_accept': int(want == 'accept'),
                      'rejected': int(got == 'reject')},
            'outcome': (prop, mode.split('-')[0], want, got)}


# ---------------------------------------------------------------------- solve
def cases_solve(tier):
    out = []
    combos = [((4, 4, 4), 'rnd')]
    if tier != 'quick':
        combos += [((4, 4, 4), 'lay'), ((8, 4, 6), 'rnd'), ((4, 6, 4), 'hom')]
    for shape, prof in combos:
        for case_ in zoo.CASES:
            for mu in (False, True):
                for eps in (False, True):
                    for f in (1.0, -1.0):
                        out.append({'shape': shape, 'prof': prof,
                                    'case': case_, 'mu_r': mu, 'eps_r': eps,
                                    'freq': f})
    return out


def _pt(grid, a, b, c):
    """Point at fractions (a, b, c) of the box spanned by the second and the
    second-to-last nodes (so that only interior edges are touched)."""
    out = []
    for nodes, t in zip((grid.nodes_x, grid.nodes_y, grid.nodes_z), (a, b, c)):
        out.append(float(nodes[1] + t*(nodes[-2] - nodes[1])))
    return tuple(out)


def case_solve(c):
    import emg3d
    shape, case_, freq = tuple(c['shape']), c['case'], c['freq']
    grid = zoo.mesh({'shape': shape, 'w': 'mix'})
    sig = [zoo.cell_values(shape, c['prof'], t) for t in 'xyz']
    mu = zoo.cell_values(shape, c['prof'], 'm', 0.5, 3.0) if c['mu_r'] \
        else None
    eps = zoo.cell_values(shape, c['prof'], 'e', 1e6, 1e8) if c['eps_r'] \
        else None
    src = emg3d.TxElectricDipole((*_pt(grid, .2, .3, .4), 30., 20.))
    rec = [emg3d.RxElectricPoint((*_pt(grid, .8, .6, .3), 10., 5.)),
           emg3d.RxMagneticPoint((*_pt(grid, .5, .9, .7), -20., 15.)),
           emg3d.RxElectricPoint((*_pt(grid, .35, .7, .85), 70., -40.))]
    sopts = {'sslsolver': True, 'tol': 1e-12, 'maxit': 100}
    do_grad = freq > 0 and mu is None and eps is None
    viol = []
    compared = 0
    cnt = {'inconclusive': 0, 'fields': 0, 'data': 0, 'gradients': 0}

    def bad(cls, what, obs=None, exp=None):
        viol.append({'cls': cls, 'what': what, 'observed': obs,
                     'expected': exp})

    # reference field: direct solve of the reference operator built from the
    # conductivities themselves (no mapping involved)
    sfield = emg3d.get_source_field(grid, src, freq)
    A = fit.assemble(grid.h, eff_sigmas(case_, sig), zoo.sval_of(freq), mu,
                     eps)
    eref = fit.solve_direct(A, sfield.field, shape)
    escale = np.abs(eref).max()

    res = {}
    worst = 0.0
    with warnings.catch_warnings(), _quiet():
        for mp in MAPPINGS:
            model = build_model(grid, mp, case_, sig, mu, eps)
            efield, info = emg3d.solve(model, sfield, verb=-1,
                                       return_info=True, **sopts)
            survey = emg3d.Survey(sources=src, receivers=rec,
                                  frequencies=freq, noise_floor=1e-15,
                                  relative_error=0.05)
            sim = emg3d.Simulation(
                survey, model, gridding='same', max_workers=1,
                solver_opts=sopts, receiver_interpolation='linear', verb=-1,
                tqdm_opts=False, name='c14')
            sim.compute()
            data = np.array(sim.data.synthetic.data)
            sinfo = sim.get_efield_info('TxED-1', 'f-1')
            ok = info['exit'] == 0 and sinfo['exit'] == 0
            grad = None
            if do_grad and ok:
                obs = data*(1.3 + 0.2j)
                obs[0, 1, 0] = np.nan   # magnetic receiver: data only
                sim.data['observed'][...] = obs
                grad = np.array(sim.gradient).reshape((-1, *shape))
                ok = ok and sim._dict_bfield_info['TxED-1']['f-1'][
                    'exit'] == 0
            res[mp] = (efield.field.copy(), data, grad, ok)

        ref = res['Conductivity']
        names = {'isotropic': 'x', 'VTI': 'xz', 'HTI': 'xy',
                 'triaxial': 'xyz'}[case_]
        for mp in MAPPINGS:
            ef, data, grad, ok = res[mp]
            if not (ok and ref[3]):
                cnt['inconclusive'] += 1
                continue
            e = np.abs(ef - eref).max()/escale
            compared += 1
            worst = max(worst, e)
            if not e <= 1e-8:
                bad('field-differs-from-reference-solution',
                    f'{mp}/{case_}: solve() vs direct solve of the reference '
                    f'operator for the same conductivities: {e:.2e}')
            if not np.all(np.isfinite(data)):
                bad('data-not-finite', f'{mp}/{case_}: synthetic data {data}')
            if mp == 'Conductivity':
                continue
            e = np.abs(ef - ref[0]).max()/escale
            cnt['fields'] += 1
            compared += 1
            worst = max(worst, e)
            if not e <= 1e-9:
                bad('field-depends-on-mapping',
                    f'{mp}/{case_}: field differs from the Conductivity '
                    f'model field by {e:.2e} (relative)')
            e = np.abs(data - ref[1]).max()/np.abs(ref[1]).max()
            cnt['data'] += 1
            compared += 1
            worst = max(worst, e)
            if not e <= 1e-9:
                bad('data-depends-on-mapping',
                    f'{mp}/{case_}: Simulation data differ from the '
                    f'Conductivity model data by {e:.2e} (relative)',
                    data.ravel(), ref[1].ravel())
            if grad is not None and ref[2] is not None:
                fac = np.array([ref_dsig_dm(mp, sig['xyz'.index(t)])
                                for t in names])
                gexp = ref[2]*fac
                e = np.abs(grad - gexp).max()/np.abs(gexp).max() \
                    if grad.shape == gexp.shape else np.inf
                cnt['gradients'] += 1
                compared += grad.size
                if not e <= 1e-9:
                    bad('gradient-not-conductivity-gradient-times-dsigma-dm',
                        f'{mp}/{case_}: Simulation.gradient vs Conductivity '
                        f'gradient x d(sigma)/d(m): {e:.2e} (relative)')
        if do_grad and ref[3] and not np.abs(ref[2]).max() > 0:
            bad('gradient-vacuous', 'Conductivity gradient is zero')
    return {'viol': viol, 'compared': compared, 'transitions': 12,
            'nontrivial': cnt['fields'] > 0, 'count': cnt,
            'outcome': (case_, bool(c['mu_r']), bool(c['eps_r']), freq > 0,
                        cnt['inconclusive'],
                        int(np.floor(np.log10(worst + 1e-300))))}


# ------------------------------------------------- automatic gridding inputs
def case_autogrid(c):
    """The computational grid of a simulation is derived from the model
    (estimate_gridding_opts: conductivities of the source cell and of the six
    outer faces).  The same physical model must yield the same gridding
    properties (as conductivities), the same mesh and hence the same data in
    all six mappings - also when the model is heterogeneous within a face."""
    import emg3d
    shape = tuple(c['shape'])
    grid = emg3d.TensorMesh([np.ones(n)*100.0 for n in shape],
                            origin=(-100.0*shape[0]/2, -100.0*shape[1]/2,
                                    -100.0*shape[2]))
    sig = [zoo.cell_values(shape, 'rnd', ('c14g', d), 0.05, 5.0)
           for d in 'xyz']
    if c['prof'] == 'lay':
        sig = [np.broadcast_to(x[:1, :1, :], shape).copy() for x in sig]
    src = emg3d.TxElectricDipole((13.0, -20.0, -270.0, 30.0, 10.0))
    rec = emg3d.RxElectricPoint((120.0, 40.0, -240.0, 0.0, 0.0))
    survey = emg3d.Survey(src, rec, c['freq'])
    viol, compared = [], 0
    ref_props, ref_nodes = None, None
    for mp in MAPPINGS:
        model = build_model(grid, mp, c['case'], sig, None, None)
        with warnings.catch_warnings(), _quiet():
            g = emg3d.meshes.estimate_gridding_opts(
                dict(c['gopts']), model, survey)
            props = ref_backward(g['mapping'], np.array(g['properties'],
                                                        dtype=float))
            try:
                mesh = emg3d.construct_mesh(**g)
                nodes = [mesh.nodes_x, mesh.nodes_y, mesh.nodes_z]
            except RuntimeError:        # 'No suitable grid found': loud, but
                nodes = [np.zeros(1)]*3   # then for every mapping alike
        # the documented choice: lowest conductivity of the source cell / of
        # each outer face, over all directions of the anisotropy case
        eff = eff_sigmas(c['case'], sig)
        want = [min(x[sl].min() for x in eff) for sl in (
            (0, slice(None), slice(None)), (-1, slice(None), slice(None)),
            (slice(None), 0, slice(None)), (slice(None), -1, slice(None)),
            (slice(None), slice(None), 0), (slice(None), slice(None), -1))]
        compared += 2
        if not np.allclose(props[1:], want, rtol=1e-10, atol=0):
            viol.append({
                'cls': 'gridding-properties-not-lowest-face-conductivity',
                'what': f'{mp}, {c}: buffer conductivities {props[1:]} != '
                        f'lowest conductivities of the six faces {want}'})
        if ref_props is None:
            ref_props, ref_nodes = props, nodes
            continue
        if not np.allclose(props, ref_props, rtol=1e-10, atol=0):
            viol.append({'cls': 'gridding-properties-depend-on-mapping',
                         'what': f'{mp} vs {MAPPINGS[0]}, {c}: {props} vs '
                                 f'{ref_props}'})
        if any(a.shape != b.shape or not np.allclose(a, b, rtol=1e-9,
                                                     atol=1e-6)
               for a, b in zip(nodes, ref_nodes)):
            viol.append({'cls': 'automatic-grid-depends-on-mapping',
                         'what': f'{mp} vs {MAPPINGS[0]}, {c}: cells '
                                 f'{[len(x)-1 for x in nodes]} vs '
                                 f'{[len(x)-1 for x in ref_nodes]} (0 = no '
                                 'grid found)'})
    return {'viol': viol, 'compared': compared, 'transitions': len(MAPPINGS),
            'nontrivial': True,
            'outcome': (c['case'], c['prof'],
                        tuple(len(x) - 1 for x in ref_nodes))}


def cases_autogrid(tier):
    out = []
    for shape in ((4, 4, 4), (5, 3, 6)) + (((8, 6, 5),) if tier != 'quick'
                                           else ()):
        for case_ in ('isotropic', 'VTI', 'HTI', 'triaxial'):
            for prof in ('all', 'lay'):
                for freq in (1.0, -30.0):
                    for gopts in ({}, {'center_on_edge': True},
                                  {'lambda_factor': 0.5}):
                        if tier == 'quick' and gopts and freq < 0:
                            continue
                        out.append({'shape': shape, 'case': case_,
                                    'prof': prof, 'freq': freq,
                                    'gopts': gopts})
    return out


# ------------------------------------------- representation of the inputs
FN_REP = 'mc.checks.c14_mapping:case_representation'


def case_representation(c):
    """The same numbers handed over as float64 / int64 / int32 / float32
    arrays (C- or F-ordered, full 3-D or flat), as lists, or as 0-d arrays
    give the same model: stored as float64, same VolumeModel coefficients;
    later assignments of non-integer values are stored as given."""
    import emg3d
    shape = (2, 3, 3)
    grid = zoo.mesh({'shape': shape, 'w': 'uni'})
    mp, case_ = c['mapping'], c['case']
    n = int(np.prod(shape))
    # integer-valued mapped parameters (valid in every mapping)
    base = (1 + (np.arange(n) % 4)).reshape(shape, order='F')
    if c['rep'].startswith('bcast'):
        # lower-dimensional arrays that numpy broadcasting expands to the
        # grid: a depth profile (nz,), a (ny, nz) section, an (nx, 1, 1) row
        sl = {'bcast-z': (slice(0, 1), slice(0, 1)),
              'bcast-yz': (slice(0, 1), ),
              'bcast-x': (slice(None), slice(0, 1), slice(0, 1))}[c['rep']]
        base = np.broadcast_to(base[sl], shape).copy()
    sign = -1 if (mp.startswith('L') and c['neg']) else 1
    vals = {'property_x': sign*base, 'property_y': sign*(base % 3 + 1),
            'property_z': sign*(5 - base)}
    names = {'isotropic': ['property_x'], 'VTI': ['property_x', 'property_z'],
             'HTI': ['property_x', 'property_y'],
             'triaxial': ['property_x', 'property_y', 'property_z']}[case_]

    def rep(a):
        k = c['rep']
        if k == 'int64':
            return np.array(a, dtype=np.int64)
        if k == 'int32-F':
            return np.asfortranarray(np.array(a, dtype=np.int32))
        if k == 'float32':
            return np.array(a, dtype=np.float32)
        if k == 'flat-int':
            return np.array(a, dtype=np.int64).ravel('F')
        if k == 'list':
            return np.asarray(a).tolist()
        if k == 'bcast-z':
            return np.array(np.asarray(a)[0, 0, :], dtype=float)
        if k == 'bcast-yz':
            return np.array(np.asarray(a)[0, :, :], dtype=float)
        if k == 'bcast-x':
            return np.array(np.asarray(a)[:, :1, :1], dtype=float)
        if k == 'view':
            big = np.zeros((4, 6, 6), dtype=np.int64)
            big[::2, ::2, ::2] = a
            return big[::2, ::2, ::2]
        return np.array(a, dtype=float)
    viol = []
    with warnings.catch_warnings(), _quiet():
        ref_m = emg3d.Model(grid, mapping=mp, **{
            k: np.array(vals[k], dtype=float) for k in names})
        try:
            model = emg3d.Model(grid, mapping=mp,
                                **{k: rep(vals[k]) for k in names})
        except Exception as e:      # noqa - valid values must be accepted
            return {'viol': [{
                'cls': 'valid-values-rejected-in-this-representation',
                'what': f'{c}: {type(e).__name__}: {str(e)[:120]}'}],
                'compared': 1, 'nontrivial': True}
        sfield = emg3d.Field(grid, frequency=c['freq'])
        v1 = emg3d.models.VolumeModel(model, sfield)
        v0 = emg3d.models.VolumeModel(ref_m, sfield)
        for k in names:
            a = getattr(model, k)
            if a.dtype != np.float64 or not np.array_equal(
                    a, getattr(ref_m, k)):
                viol.append({'cls': 'model-stores-other-values',
                             'what': f'{c}: {k} stored as {a.dtype}, '
                                     'values differ from the float64 model'})
        for k in ('eta_x', 'eta_y', 'eta_z', 'zeta'):
            if not np.allclose(getattr(v1, k), getattr(v0, k), rtol=1e-14,
                               atol=0):
                viol.append({'cls': 'volumemodel-depends-on-input-dtype',
                             'what': f'{c}: {k} differs from the model built '
                                     'from float64 arrays'})
        # assignment of non-integer values afterwards
        new = np.array(vals['property_x'], dtype=float)*1.37 + 0.4*sign
        model.property_x = new
        if not np.array_equal(model.property_x, new):
            viol.append({'cls': 'accepted-assignment-not-stored',
                         'what': f'{c}: property_x after assignment of '
                                 'non-integer values is not what was '
                                 'assigned (dtype '
                                 f'{model.property_x.dtype})'})
    return {'viol': viol, 'compared': 3 + len(names), 'transitions': 2,
            'nontrivial': True, 'outcome': (c['rep'], mp[:2], bool(viol))}


def cases_representation(tier):
    out = []
    for mp in MAPPINGS:
        for case_ in ('isotropic', 'VTI', 'HTI', 'triaxial'):
            for rp in ('float', 'int64', 'int32-F', 'float32', 'flat-int',
                       'list', 'view', 'bcast-z', 'bcast-yz', 'bcast-x'):
                for neg in (False, True):
                    if neg and not mp.startswith('L'):
                        continue
                    for freq in ((10.0,) if tier == 'quick' else
                                 (10.0, -50.0)):
                        out.append({'mapping': mp, 'case': case_, 'rep': rp,
                                    'neg': neg, 'freq': freq})
    return out


# ------------------------------------------------- layered (1-D) simulations
FN_LAY = 'mc.checks.c14_mapping:case_layered'


def case_layered(c):
    """Laterally averaged 1-D models and the data of layered simulations for
    the same conductivities expressed in the six mappings; the gridding
    options (from which the averaging radius is taken when none is given)
    are stated in their own mapping `gmap`, the same for all six runs."""
    import emg3d
    case_, method, gmap = c['case'], c['method'], c['gmap']
    shape = (8, 6, 5)
    grid = emg3d.TensorMesh(
        [np.ones(shape[0])*400., np.ones(shape[1])*400.,
         np.array([600., 300., 300., 200., 400.])],
        origin=(-1600., -1200., -1400.))
    sx = zoo.cell_values(shape, 'rnd', 'x', 1e-2, 3.0)
    sz = sx/zoo.cell_values(shape, 'rnd', 'z', 1.0, 3.0)
    sx[..., -1] = sz[..., -1] = 1e-8
    sx[..., -2] = sz[..., -2] = 3.0
    sx[2:5, 1:4, 1:3] = 1e-3
    survey = emg3d.Survey(
        sources=emg3d.TxElectricDipole((-100., 50., -250., 20., 5.)),
        receivers=[emg3d.RxElectricPoint((900., 100., -200., 0., 0.)),
                   emg3d.RxMagneticPoint((-700., -300., -200., 90., 0.))],
        frequencies=[0.5, 2.0])
    gprops = [3.0, 0.25, 1e-8]
    viol = []
    out = {}
    cmp_ = 0
    with warnings.catch_warnings(), _quiet():
        warnings.simplefilter('ignore')
        for mp in MAPPINGS:
            model = emg3d.Model(
                grid, property_x=ref_forward(mp, sx),
                property_z=None if case_ == 'isotropic' else
                ref_forward(mp, sz), mapping=mp)
            # (1) Model.extract_1d with an explicit ellipse
            kw = {} if method in ('midpoint', ) else {
                'ellipse': {'radius': 700., 'factor': 1.2, 'minor': 0.8}}
            lay = {}
            for merge in (False, True):
                m1 = model.extract_1d(method, (-100., 50.), (900., 100.),
                                      merge=merge, **kw)
                lay[merge] = [ref_backward(mp, getattr(m1, k)).ravel()
                              for k in ('property_x', 'property_z')
                              if getattr(m1, k) is not None]
                lay[merge].append(np.array(m1.grid.h[2]))
            # (2) layered Simulation without a radius
            gopts = {}
            if gmap is not None:
                gopts = {'properties': [float(ref_forward(gmap, np.array(v)))
                                        for v in gprops], 'mapping': gmap}
            lopts = {'method': method}
            sim = emg3d.Simulation(survey.copy(), model, gridding='single',
                                   gridding_opts=gopts, layered=True,
                                   layered_opts=lopts, max_workers=1, verb=0,
                                   tqdm_opts=False)
            radius = sim.layered_opts.get('ellipse', {}).get('radius')
            sim.compute()
            out[mp] = (lay, radius, sim.data.synthetic.data.copy())
    ref = out['Conductivity']
    if gmap is not None and method != 'midpoint':
        exp_r = 503.292121044*np.sqrt(1/0.25/0.5)
        cmp_ += 1
        if not abs(ref[1]/exp_r - 1) < 1e-6:
            viol.append({'cls': 'layered-radius-not-skin-depth-of-gridding-'
                                'property',
                         'what': f'{c}: radius {ref[1]} for the Conductivity '
                                 f'model, one skin depth is {exp_r}'})
    for mp in MAPPINGS[1:]:
        lay, radius, data = out[mp]
        for merge in (False, True):
            cmp_ += 1
            a, b = lay[merge], ref[0][merge]
            if len(a) != len(b) or any(
                    x.shape != y.shape or not np.allclose(x, y, rtol=1e-10,
                                                          atol=0)
                    for x, y in zip(a, b)):
                viol.append({'cls': 'extract-1d-depends-on-mapping',
                             'what': f'{c}: merge={merge}: layer '
                                     f'conductivities / thicknesses in {mp} '
                                     'differ from the Conductivity model'})
        cmp_ += 2
        if (radius is None) != (ref[1] is None) or (
                radius is not None and abs(radius/ref[1] - 1) > 1e-10):
            viol.append({'cls': 'layered-radius-depends-on-mapping',
                         'what': f'{c}: {mp}: radius {radius} vs {ref[1]}'})
        err = np.max(np.abs(data - ref[2])/np.abs(ref[2]))
        if not err < 1e-8:
            viol.append({'cls': 'layered-data-depend-on-mapping',
                         'what': f'{c}: {mp}: data differ by {err:.2e} from '
                                 'the Conductivity model'})
    return {'viol': viol, 'compared': cmp_, 'transitions': 18,
            'nontrivial': True,
            'outcome': (case_, method, str(gmap)[:2], bool(viol))}


def cases_layered(tier):
    out = []
    for case_ in ('isotropic', 'VTI'):
        for method in ('cylinder', 'prism', 'midpoint'):
            for gmap in [None] + list(MAPPINGS):
                out.append({'case': case_, 'method': method, 'gmap': gmap})
    return out


# ------------------------------------------------------------------------ run
def prepare(ctx):
    impl.warm()


def run(ctx):
    ctx.assume(
        "conductivities are the 49 values 10**(k/4), k = -32..16 (1e-8 .. 1e4 "
        "S/m: 4 per decade over 12 decades), as single-value models and as "
        "one heterogeneous array holding all of them; anisotropic components "
        "are pairwise different members of the same set",
        "mu_r in [0.5, 3], epsilon_r in [1e6, 1e8] (seeded log-uniform); "
        "frequencies 10 Hz and s = 50 (thorough: also 0.01 Hz, s = 1e4)",
        "tolerances: 1e-12 relative per entry for maps and VolumeModel "
        "coefficients (real and imaginary part separately), 1e-6 for the "
        "difference quotient, 1e-9 for fields / data / gradients obtained "
        "with tol=1e-12 on 4x4x4 (thorough: up to 8x4x6) grids; a solve that "
        "does not report exit 0 makes the case inconclusive",
        "rejection: the verdict is decided on the conductivity computed by "
        "an independent inverse map; values whose conductivity is positive "
        "and finite but outside 1e-8..1e4 S/m (mu_r, epsilon_r: outside "
        "1e-8..1e8) may be accepted or rejected",
        "Simulation gradient only for f > 0 without mu_r / epsilon_r "
        "(emg3d implements nothing else); receivers and source inside the "
        "box of interior nodes")
    cap = ctx.budget or (400 if ctx.quick else 2400)
    prepare(ctx)      # import emg3d / compile once in the parent, then fork
    if ctx.wants('maps'):
        ctx.explore('maps', FN_MAPS, cases_maps(ctx.tier), engine='E1',
                    rule='6 mappings x (49 conductivities 1e-8..1e4 as scalar'
                         ' [thorough: also as 1-element array] + all 49 in '
                         'one F-ordered 3-D array [thorough: also as a view '
                         'into a (3,nx,ny,nz) gradient]); non-trivial = not '
                         'the identity map', time_cap=cap)
    if ctx.wants('reject'):
        ctx.explore('reject', FN_REJ, cases_reject(ctx.tier), engine='E1',
                    rule='5 properties x 6 mappings x 13 value tokens x '
                         '(construction: scalar, full array, flat array; '
                         'assignment: scalar, array; bad entry first / middle'
                         ' / last) + assignment to absent properties; '
                         'non-trivial = verdict fixed by the property',
                    time_cap=cap)
    if ctx.wants('representation'):
        ctx.explore('representation', FN_REP, cases_representation(ctx.tier),
                    engine='E1',
                    rule='6 mappings x 4 cases x 10 representations of the '
                         'same integer-valued parameters (float64, int64, '
                         'F-ordered int32, float32, flat, list, strided '
                         'view, broadcastable depth profile / section / row) x sign (log mappings): stored as float64, '
                         'same coefficients, later non-integer assignment '
                         'kept', time_cap=cap)
    if ctx.wants('layered'):
        ctx.explore('layered', FN_LAY, cases_layered(ctx.tier), engine='E1',
                    rule='{isotropic, VTI} x {cylinder, prism, midpoint} x '
                         'gridding-option mapping {none, 6 mappings}; per '
                         'case the six model mappings: Model.extract_1d '
                         '(merge off/on), the averaging radius derived by '
                         'Simulation(layered=True), and the layered data',
                    time_cap=cap)
    if ctx.wants('autogrid'):
        ctx.explore('autogrid', FN_GRID, cases_autogrid(ctx.tier),
                    engine='E1',
                    rule='model shapes x 4 cases x {heterogeneous within '
                         'faces, layered} x {f>0, f<0} x gridding options; '
                         'per case the six mappings through '
                         'estimate_gridding_opts + construct_mesh: same '
                         'conductivities, same mesh', time_cap=cap)
    if ctx.wants('volmodel'):
        ctx.explore('volmodel', FN_VOL, cases_volmodel(ctx.tier), engine='E1',
                    rule='full product (49 single-value models + 1 '
                         'heterogeneous) x 6 mappings x 4 cases x mu_r x '
                         'eps_r x frequencies', time_cap=cap)
    if ctx.wants('solve'):
        ctx.explore('solve', FN_SOLVE, cases_solve(ctx.tier), engine='E1',
                    rule='4 cases x mu_r x eps_r x {f>0, f<0} (x shape/'
                         'profile in thorough); per case solve() + '
                         'Simulation (+ gradient) in all 6 mappings; '
                         'non-trivial = at least one conclusive comparison',
                    time_cap=cap, chunksize=1)
