"""C07 - adjoint-state gradient equals the derivative of the data misfit.

E1: full product mapping x anisotropy case, plus a deviation-bounded lattice
over grid, source type, receiver type, relative receivers, number of sources
and frequencies, NaN pattern, noise form, source strength.  Oracle: the exact
discrete reference gradient (mc.refmodel.adjoint) for all cells and components
(the directional derivative is linear in the direction, so agreement of all
components is agreement for every direction); central finite differences of
the real Simulation.misfit bind the reference to the code; a covering subset
is repeated with the real iterative solver.
"""
import warnings

import numpy as np

from .. import impl, zoo, space
from ..refmodel import adjoint

FN = 'mc.checks.c07_gradient:case'

DOM = {
    'grid': ['A', 'B', 'C'],
    'mapping': list(zoo.MAPPINGS),
    'case': list(zoo.CASES),
    'source': ['dip5', 'dip6', 'point', 'wire', 'mdip', 'mpoint'],
    'rec': ['EH', 'E', 'H'],
    'relative': [False, True],
    'nsrc': [1, 2],
    'nfreq': [1, 2],
    'nan': ['none', 'one', 'row'],
    'noise': ['scalar', 'nf', 're', 'nf-src', 're-freq', 'full', 'std'],
    'strength': [1.0, 'cplx'],
}

GRIDS = {
    'A': ((6, 5, 6), ('geo', 'alt', 'rnd')),
    'B': ((5, 6, 4), ('rnd', 'geo', 'alt')),
    'C': ((8, 6, 5), ('alt', 'rnd', 'geo')),
}


def mesh(name):
    import emg3d
    shape, profs = GRIDS[name]
    h = [zoo.widths(shape[d], profs[d], d)*60.0 for d in range(3)]
    origin = tuple(-0.5*np.sum(x) for x in h)
    return emg3d.TensorMesh(h, origin=origin)


def inner_box(grid):
    """Coordinates range of cells 1..n-2 (receivers must be inside)."""
    nd = [grid.nodes_x, grid.nodes_y, grid.nodes_z]
    return [(x[1], x[-2]) for x in nd]


def frac(box, fx, fy, fz):
    return tuple(lo + f*(hi-lo) for (lo, hi), f in zip(box, (fx, fy, fz)))


def make_sim(cfg, solver_opts=None):
    import emg3d
    grid = mesh(cfg['grid'])
    model = zoo.model(grid, {'case': cfg['case'], 'prof': 'rnd',
                             'mapping': cfg['mapping']})
    box = inner_box(grid)
    st = (2.0-1.0j) if cfg['strength'] == 'cplx' else 1.0
    srcs = []
    for i in range(cfg['nsrc']):
        c = frac(box, 0.3+0.25*i, 0.35+0.2*i, 0.45+0.1*i)
        k = cfg['source']
        if k == 'dip5':
            s = emg3d.TxElectricDipole((*c, 25.+40*i, 15.-30*i), strength=st,
                                       length=20.)
        elif k == 'dip6':
            c2 = frac(box, 0.55+0.1*i, 0.5, 0.6)
            s = emg3d.TxElectricDipole((c[0], c2[0], c[1], c2[1], c[2],
                                        c2[2]), strength=st)
        elif k == 'point':
            s = emg3d.TxElectricPoint((*c, -35.+20*i, 40.), strength=st)
        elif k == 'wire':
            c2 = frac(box, 0.5, 0.6, 0.5)
            c3 = frac(box, 0.65, 0.4+0.1*i, 0.7)
            s = emg3d.TxElectricWire(np.array([c, c2, c3]), strength=st)
        elif k == 'mdip':
            s = emg3d.TxMagneticDipole((*c, 70., -20.+10*i), strength=st,
                                       length=30.)
        elif k == 'mpoint':
            s = emg3d.TxMagneticPoint((*c, 10., 60.-15*i), strength=st)
        srcs.append(s)
    rel = cfg['relative']
    # absolute positions, or offsets from the source centre
    pos = [frac(box, 0.75, 0.7, 0.3), frac(box, 0.2, 0.8, 0.65),
           frac(box, 0.6, 0.15, 0.8)]
    if rel:
        c0 = frac(box, 0.3, 0.35, 0.45)
        pos = [tuple(p - q for p, q in zip(pp, c0)) for pp in pos]
        # keep offsets small enough that all sources stay inside
        pos = [tuple(0.55*x for x in pp) for pp in pos]
    ang = [(20., 5.), (-40., 10.), (90., 0.)]
    kinds = {'EH': 'EHE', 'E': 'EEE', 'H': 'HHH'}[cfg['rec']]
    recs = []
    for p, a, kd in zip(pos, ang, kinds):
        cls = emg3d.RxElectricPoint if kd == 'E' else emg3d.RxMagneticPoint
        recs.append(cls((*p, *a), relative=rel))
    freqs = [1.0, 3.0][:cfg['nfreq']]
    survey = emg3d.Survey(
        sources=emg3d.surveys.txrx_lists_to_dict(srcs),
        receivers=emg3d.surveys.txrx_lists_to_dict(recs),
        frequencies=freqs)
    shape = survey.shape
    r = zoo.rng('c07', 'obs', shape)
    obs = (r.standard_normal(shape) + 1j*r.standard_normal(shape))
    # scale observed data like the synthetic ones (set later by caller)
    nz = cfg['noise']
    if nz == 'scalar':
        survey.noise_floor, survey.relative_error = 1e-3, 0.05
    elif nz == 'nf':
        survey.noise_floor = 2e-3
    elif nz == 're':
        survey.relative_error = 0.03
    elif nz == 'nf-src':
        survey.noise_floor = np.linspace(1e-3, 3e-3, shape[0]
                                         ).reshape(-1, 1, 1)
        survey.relative_error = 0.05
    elif nz == 're-freq':
        survey.noise_floor = 1e-3
        survey.relative_error = np.linspace(0.02, 0.08, shape[2]
                                            ).reshape(1, 1, -1)
    elif nz == 'full':
        survey.noise_floor = 1e-3*(1 + r.uniform(0, 1, shape))
        survey.relative_error = 0.02*(1 + r.uniform(0, 1, shape))
    sim = emg3d.Simulation(
        survey, model, max_workers=1, gridding='same',
        receiver_interpolation='linear', tqdm_opts=False, verb=-1,
        solver_opts=solver_opts or {})
    return sim, obs


def set_observed(sim, obs, cfg, dref):
    """Observed = reference data perturbed by 30 % 'noise' (deterministic),
    all noise levels relative to the data amplitude."""
    amp = np.abs(dref)
    d = dref*(1 + 0.3*obs)
    if cfg['nan'] == 'one':
        d[0, 1, 0] = np.nan+1j*np.nan
    elif cfg['nan'] == 'row':
        d[0, 2, :] = np.nan+1j*np.nan
    sim.survey.data['observed'] = (sim.survey.data.observed.dims, d)
    sc = float(np.nanmean(amp))
    s = sim.survey
    # rescale noise floors to the amplitude of these data
    if s.noise_floor is not None and not isinstance(s.noise_floor, str):
        s.noise_floor = np.asarray(s.noise_floor)*sc*1e3 if np.ndim(
            s.noise_floor) else float(s.noise_floor)*sc*1e3
    if cfg['noise'] == 'std':
        r = zoo.rng('c07', 'std', d.shape)
        s.standard_deviation = sc*(0.05 + 0.1*r.uniform(0, 1, d.shape))


def relerr(a, b):
    a, b = np.asarray(a), np.asarray(b)
    if a.shape != b.shape:
        return np.inf
    return float(np.abs(a - b).max()/max(np.abs(b).max(), 1e-300))


def expected_shape(case, n):
    return {'isotropic': n, 'VTI': (2,)+n, 'HTI': (2,)+n,
            'triaxial': (3,)+n}[case]


def case(c):
    cfg = dict(c['cfg'])
    viol = []
    compared = 0

    def V(cls, what, **kw):
        viol.append(dict(cls=cls, what=what, **kw))

    with warnings.catch_warnings():
        warnings.simplefilter('ignore')
        sim, obs = make_sim(cfg)
        ref0 = adjoint.Reference(sim)
        dref = ref0.data()
        set_observed(sim, obs, cfg, dref)
        ref = adjoint.Reference(sim)
        ref._lu, ref._e = ref0._lu, ref0._e
        phi_ref, r, w = ref.misfit()
        J = ref.jacobian()
        g_ref = ref.gradient(J)
        n = tuple(sim.model.grid.shape_cells)

        with adjoint.exact_mode():
            phi = float(sim.misfit)
            syn = np.array(sim.data.synthetic.data)
            g = np.array(sim.gradient)
        compared += 3
        if not relerr(syn, dref) <= 1e-9:
            V('synthetic-data-differ-from-reference',
              f'rel. error {relerr(syn, dref):.2e}')
        if not abs(phi - phi_ref) <= 1e-9*abs(phi_ref):
            V('misfit-differs-from-reference', f'{phi!r} vs {phi_ref!r}')
        if g.shape != expected_shape(cfg['case'], n):
            V('gradient-shape', f'{g.shape} for case {cfg["case"]}')
        elif not np.all(np.isfinite(g)):
            V('gradient-not-finite', f'{np.count_nonzero(~np.isfinite(g))} '
              'non-finite entries')
        else:
            e = relerr(g, g_ref)
            if not e <= 1e-8:
                k = np.unravel_index(np.argmax(np.abs(g - g_ref)), g.shape)
                V('gradient-differs-from-exact-derivative',
                  f'max |g - g_ref| / max|g_ref| = {e:.2e} at index {k}: '
                  f'{g[k]:.6e} vs {g_ref[k]:.6e}', observed=float(g[k]),
                  expected=float(g_ref[k]))
        out = {'err': relerr(g, g_ref) if g.shape == g_ref.shape else None}

        # --- the gradient stays the derivative of the reported misfit after
        # sensitivity products with other vectors were formed on the same
        # object (jvec / jtvec use the gradient machinery and its caches)
        if g.shape == g_ref.shape and np.all(np.isfinite(g)):
            rw = zoo.rng('c07', 'w', sim.survey.shape)
            wv = (rw.standard_normal(sim.survey.shape) +
                  1j*rw.standard_normal(sim.survey.shape))*np.abs(r).max()
            vv = zoo.rng('c07', 'v', g.shape).standard_normal(g.shape)
            with adjoint.exact_mode():
                sim.jvec(vv)
                sim.jtvec(wv)
                phi3 = float(sim.misfit)
                g3 = np.array(sim.gradient)
            compared += 2
            if not abs(phi3 - phi_ref) <= 1e-9*abs(phi_ref):
                V('misfit-changed-by-jvec-jtvec', f'{phi3!r} vs {phi_ref!r}')
            if g3.shape != g_ref.shape or not relerr(g3, g_ref) <= 1e-8:
                V('gradient-after-jvec-jtvec-differs-from-exact-derivative',
                  'gradient read after jvec(v), jtvec(w) on the same '
                  f'simulation: rel. error {relerr(g3, g_ref):.2e}')

        # --- finite differences of the real misfit (binding to the code)
        if c.get('fd'):
            import emg3d
            rr = zoo.rng('c07', 'dir', g.shape)
            dirs = []
            flat = g_ref.ravel()
            for idx in (int(np.argmax(np.abs(flat))), flat.size//3,
                        flat.size - 2):
                v = np.zeros(flat.size)
                v[idx] = 1.0
                dirs.append(v.reshape(g_ref.shape))
            dirs.append(rr.standard_normal(g_ref.shape))
            for v in dirs:
                errs = []
                for hstep in (2e-3, 1e-3):
                    ph = []
                    for sgn in (1, -1):
                        m2 = perturbed(sim.model, sgn*hstep*v)
                        s2 = emg3d.Simulation(
                            sim.survey.copy(), m2, max_workers=1,
                            gridding='same', receiver_interpolation='linear',
                            tqdm_opts=False, verb=-1)
                        with adjoint.exact_mode():
                            ph.append(float(s2.misfit))
                    fd = (ph[0] - ph[1])/(2*hstep)
                    errs.append(fd - float(np.sum(g*v)))
                scale = max(abs(float(np.sum(g_ref*v))),
                            1e-6*np.abs(g_ref).max()*np.abs(v).max())
                compared += 1
                noise = 1e-13*abs(phi_ref)/1e-3   # rounding of phi in FD
                ok = (abs(errs[1]) <= 1e-6*scale + noise or
                      (abs(errs[1]) <= 1e-3*scale + noise and
                       2.5 <= abs(errs[0])/max(abs(errs[1]), 1e-300) <= 6.5))
                if not ok:
                    V('finite-difference-of-misfit-disagrees-with-gradient',
                      f'FD - <g,v> = {errs[0]:.3e} (h=2e-3), {errs[1]:.3e} '
                      f'(h=1e-3); <g,v> = {float(np.sum(g*v)):.3e}')
        # --- the real iterative solver
        if c.get('real'):
            sim2, _ = make_sim(cfg, {'tol': 1e-11, 'maxit': 200})
            sim2.survey.data['observed'] = (
                sim2.survey.data.observed.dims,
                np.array(sim.survey.data.observed.data))
            sim2.survey.noise_floor = sim.survey.noise_floor
            sim2.survey.relative_error = sim.survey.relative_error
            if cfg['noise'] == 'std':
                sim2.survey.standard_deviation = np.array(
                    sim.survey.standard_deviation.data)
            g2 = np.array(sim2.gradient)
            bad = any(
                sim2.get_efield_info(s, f)['exit'] != 0 or
                sim2._dict_get('bfield_info', s, f)['exit'] != 0
                for s, f in sim2._srcfreq)
            out['real'] = 'inconclusive' if bad else 'ok'
            if not bad:
                compared += 1
                e2 = relerr(g2, g_ref)
                if not e2 <= 1e-6:
                    V('gradient-real-solver-differs-from-exact-derivative',
                      f'rel. error {e2:.2e} (tol 1e-11)')
    return {'viol': viol, 'compared': compared,
            'transitions': int(np.prod(J.shape[-2:])),
            'nontrivial': bool(np.abs(g_ref).max() > 0),
            'outcome': (cfg['case'], cfg['mapping'][:2], out.get('real')),
            'count': {'real_inconclusive': int(out.get('real') ==
                                               'inconclusive')}}


def perturbed(model, dv):
    import emg3d
    kw = {}
    names = {'isotropic': ['property_x'],
             'VTI': ['property_x', 'property_z'],
             'HTI': ['property_x', 'property_y'],
             'triaxial': ['property_x', 'property_y', 'property_z']}[
                 model.case]
    dv = np.asarray(dv)
    if len(names) == 1:
        dv = dv[None]
    for nm, d in zip(names, dv):
        kw[nm] = getattr(model, nm) + d
    return emg3d.Model(model.grid, mapping=model.map.name, **kw)


def prepare(ctx):
    impl.warm()


def run(ctx):
    prepare(ctx)
    q = ctx.quick
    ctx.assume(
        "bulk enumeration in exact mode: the iterative solver is replaced by "
        "a direct solve of the reference operator (equal to emg3d's by C02; "
        "approximated to tol by the real solver, C01); a covering subset "
        "uses the real solver with tol 1e-11",
        "source vectors and receiver sampling are emg3d's forward code used "
        "as given linear maps; their own correctness is C09/C10",
        "grids <= 8x6x5, value alphabets; tolerance 1e-8 (exact mode)")
    cs = []
    seen = set()

    def add(cfg, **kw):
        key = tuple(sorted((k, str(v)) for k, v in cfg.items())) + \
            tuple(sorted(kw.items()))
        if key not in seen:
            seen.add(key)
            cs.append(dict(cfg=cfg, **kw))
    base = space.default(DOM)
    for mp in DOM['mapping']:
        for ca in DOM['case']:
            cfg = dict(base, mapping=mp, case=ca)
            add(cfg, fd=(mp, ca) in (('Conductivity', 'isotropic'),
                                     ('LgResistivity', 'triaxial'),
                                     ('Resistivity', 'VTI'),
                                     ('LnConductivity', 'HTI')) or not q)
    lat = {k: v for k, v in DOM.items()}
    for cfg, dev in space.lattice(lat, 1 if q else 2):
        cfg = dict(cfg)
        if 'mapping' not in dict(dev) and 'case' not in dict(dev):
            # rotate mapping/case through the lattice so that every deviation
            # meets a non-trivial chain rule and anisotropy
            i = len(cs)
            cfg['mapping'] = DOM['mapping'][i % 6]
            cfg['case'] = DOM['case'][(i // 2) % 4]
        add(cfg, fd=False)
    # real-solver covering subset
    for i, mp in enumerate(DOM['mapping']):
        cfg = dict(base, mapping=mp, case=DOM['case'][i % 4],
                   source=DOM['source'][i], rec=DOM['rec'][i % 3],
                   relative=bool(i % 2), nsrc=1 + i % 2)
        add(cfg, real=True)
    ctx.explore('gradient', FN, cs, engine='E1',
                rule='full product mapping x case + all configurations with '
                     '<= %d deviations over 11 parameter domains + '
                     'real-solver covering subset; every case compares all '
                     'gradient entries with the exact reference derivative'
                     % (1 if q else 2),
                time_cap=ctx.budget or (600 if q else 4800), chunksize=1)
