"""C12 - simulation results are a function of (model, survey), not history.

Engine E2: breadth-first search over all operation histories up to a depth,
with canonical-state merging.  Every history is replayed on a *fresh* real
Simulation; after the history the simulation is asked for its synthetic data,
misfit and gradient, which must equal those of a freshly created simulation
with the current model (differential oracle).  Values returned by operations
on the way (jvec, jtvec, fields) are compared with the fresh ones too; copies
and reloaded simulations are continued after their original was mutated.
"""
import copy
import functools
import hashlib
import os
import shutil
import tempfile
import warnings

import numpy as np

from .. import impl, zoo, explore

FN = 'mc.checks.c12_history:case'

WHATS_COPY = ('computed', 'results', 'all', 'plain')
OPS = (['compute', 'misfit', 'gradient', 'jvec', 'jtvec', 'get_efield',
        'get_hfield', 'clean:computed', 'clean:keepresults', 'clean:all'] +
       [f'copy:{w}' for w in WHATS_COPY] +
       [f'dict:{w}' for w in WHATS_COPY] +
       [f'file:{f}:{w}' for f in ('h5', 'npz', 'json')
        for w in ('computed', 'results', 'plain')] +
       ['model:m2', 'noise:n2', 'model-inplace:m2', 'touch'])

RTOL = 1e-6


def grid_():
    import emg3d
    h = [np.array([120., 90, 100, 130])*s for s in (1.0, 1.1, 0.9)]
    return emg3d.TensorMesh(h, origin=(-220., -230., -390.))


def make_model(pid, mid):
    import emg3d
    g = grid_()
    r = zoo.rng('c12', pid, mid)
    sh = tuple(g.shape_cells)
    if pid == 'P4':      # heterogeneous magnetic permeability (forward only)
        return emg3d.Model(g, 10**r.uniform(-1, 0.5, sh),
                           mu_r=r.uniform(0.6, 2.5, sh))
    if pid in ('P1', 'P3', 'P4'):
        return emg3d.Model(g, 10**r.uniform(-1, 0.5, sh))
    return emg3d.Model(g, r.uniform(-1, 0.5, sh), r.uniform(-1, 0.5, sh),
                       r.uniform(-1, 0.5, sh), mapping='LgConductivity')


def make_survey(pid):
    import emg3d
    if pid in ('P1', 'P3', 'P4'):
        srcs = [emg3d.TxElectricDipole((-60., 20., -200., 30., 10.))]
        freqs = [1.0, 2.5]
    else:
        srcs = [emg3d.TxElectricDipole((-70., -30., 10., 40., -220., -180.)),
                emg3d.TxElectricPoint((20., -50., -190., 0., 90.))]
        freqs = [0.8]
    recs = [emg3d.RxElectricPoint((60., -40., -150., 20., 5.)),
            emg3d.RxMagneticPoint((40., 50., -180., -40., 10.)),
            emg3d.RxElectricPoint((-20., 60., -120., 90., 0.))]
    survey = emg3d.Survey(sources=emg3d.surveys.txrx_lists_to_dict(srcs),
                          receivers=emg3d.surveys.txrx_lists_to_dict(recs),
                          frequencies=freqs, noise_floor=1e-13,
                          relative_error=0.05)
    obs = zoo.rng('c12', 'obs', pid)
    d = (obs.standard_normal(survey.shape) +
         1j*obs.standard_normal(survey.shape))*1e-9
    d[0, 2, 0] = np.nan + 1j*np.nan      # one missing datum
    survey.data['observed'] = (survey.data.observed.dims, d)
    return survey


def solver_opts(pid):
    if pid in ('P1', 'P3', 'P4'):
        return {'tol': 1e-10}
    return {'tol': 1e-10, 'tol_gradient': 1e-5}


def gtol(pid):
    return RTOL if pid in ('P1', 'P3', 'P4') else 2e-3


NOISE = {'n1': (1e-13, 0.05), 'n2': (4e-13, 0.11)}


def new_sim(pid, mid, file_dir=None, nid='n1'):
    import emg3d
    survey = make_survey(pid)
    survey.noise_floor, survey.relative_error = NOISE[nid]
    gkw = {'gridding': 'same'}
    if pid in ('P3', 'P4'):
        # a user-given computational grid other than the model grid (same
        # number of cells): model and fields pass through the interpolation
        hs = [np.array([100., 115, 95, 120])*s_ for s_ in (1.1, 1.0, 1.05)]
        gkw = {'gridding': 'input', 'gridding_opts': emg3d.TensorMesh(
            hs, origin=(-215., -215., -400.))}
    so = solver_opts(pid)
    user = {'solver_opts': so}
    keep = copy.deepcopy(user)
    sim = emg3d.Simulation(
        survey, make_model(pid, mid), max_workers=1,
        receiver_interpolation='linear', file_dir=file_dir,
        tqdm_opts=False, solver_opts=so, verb=-1, **gkw)
    sim._c12_user = (user, keep)     # the caller's option objects
    return sim


def vectors(pid):
    sim_shape = tuple(grid_().shape_cells)
    r = zoo.rng('c12', 'vec', pid)
    n = 1 if pid in ('P1', 'P3', 'P4') else 3
    v = r.standard_normal((n,) + sim_shape)
    if n == 1:
        v = v[0]
    s = make_survey(pid)
    w = (r.standard_normal(s.shape) + 1j*r.standard_normal(s.shape))*1e9
    return v, w


@functools.lru_cache(maxsize=None)
def fresh(pid, mid, nid='n1'):
    """Reports of a freshly created simulation (in memory)."""
    with warnings.catch_warnings():
        warnings.simplefilter('ignore')
        out = {}
        v, w = vectors(pid)
        s = new_sim(pid, mid, None, nid)
        s.compute()
        out['synthetic'] = np.array(s.data.synthetic.data)
        out['misfit'] = float(s.misfit)
        if pid == 'P4':           # gradient / J not implemented for mu_r
            src, freq = s._srcfreq[0]
            out['efield'] = np.array(s.get_efield(src, freq).field)
            out['hfield'] = np.array(s.get_hfield(src, freq).field)
            return out
        out['gradient'] = np.array(s.gradient)
        src, freq = s._srcfreq[0]
        out['efield'] = np.array(s.get_efield(src, freq).field)
        out['hfield'] = np.array(s.get_hfield(src, freq).field)
        s2 = new_sim(pid, mid, None, nid)
        out['jvec'] = np.array(s2.jvec(v))
        s3 = new_sim(pid, mid, None, nid)
        _ = s3.misfit
        out['jtvec'] = np.array(s3.jtvec(w))
    return out


def close(a, b, rtol):
    a, b = np.asarray(a), np.asarray(b)
    if a.shape != b.shape:
        return False
    na, nb = np.isnan(a), np.isnan(b)
    if not np.array_equal(na, nb):
        return False
    if not (~na).any():
        return True
    scale = np.abs(b[~nb]).max()
    return bool(np.abs(a[~na] - b[~nb]).max() <= rtol*scale)


def hsh(x):
    if x is None:
        return None
    x = np.asarray(x)
    if x.dtype.kind in 'OUS':
        return str(x)
    x = np.atleast_1d(x).astype(complex)
    nan = np.isnan(x)
    fin = x[~nan]
    scale = np.abs(fin).max() if fin.size else 0.0
    if scale == 0:
        q = np.zeros(fin.size*2, dtype=np.int64)
    else:
        z = fin/scale*1e5
        q = np.round(np.r_[z.real, z.imag]).astype(np.int64)
    hh = hashlib.sha1(q.tobytes() + nan.tobytes())
    hh.update(repr((x.shape, float(f'{scale:.5e}'))).encode())
    return hh.hexdigest()[:12]


def canon(S, mid):
    """Canonical key over everything the Simulation's methods read."""
    parts = [mid, bool(S._computed),
             None if S._misfit is None else hsh(float(np.asarray(S._misfit))),
             hsh(S._gradient)]
    for name in ('_dict_efield', '_dict_bfield'):
        dd = getattr(S, name, None)
        if dd is None:
            parts.append((name, None))
            continue
        slots = []
        for src in sorted(dd):
            for fr in sorted(dd[src]):
                val = dd[src][fr]
                if val is None:
                    slots.append(None)
                elif isinstance(val, str):
                    slots.append(('file', os.path.basename(val),
                                  os.path.exists(val)))
                else:
                    slots.append(hsh(val.field))
        parts.append((name, tuple(slots)))
    for k in sorted(S.data.keys()):
        parts.append((k, hsh(S.data[k].data)))
    parts.append((S.solver_opts.get('tol'), S.tol_forward, S.tol_gradient))
    if S.file_dir and os.path.isdir(S.file_dir):
        parts.append(tuple(sorted(os.listdir(S.file_dir))))
    return hashlib.sha1(repr(parts).encode()).hexdigest()[:16]


def mutate_original(S):
    """After a copy / reload: change and wipe the original."""
    with warnings.catch_warnings():
        warnings.simplefilter('ignore')
        S.survey.data['observed'].data[...] *= 3.0
        S.model.property_x[...] = S.model.property_x*1.7 + 0.1
        S.survey.noise_floor = 7e-12
        S.clean('all')


def apply(op, st, ref, viol, pid):
    """Apply one operation to st['S'].  Returns False if disabled."""
    import emg3d
    S = st['S']
    v, w = vectors(pid)
    src, freq = S._srcfreq[0]

    def V(cls, what):
        viol.append({'cls': cls, 'what': what})

    if pid == 'P4' and op in ('gradient', 'jvec', 'jtvec'):
        return False       # documented: not implemented for mu_r != 1
    if op == 'compute':
        S.compute()
    elif op == 'misfit':
        mraw = S.misfit
        if not (isinstance(mraw, (float, np.floating)) or
                (isinstance(mraw, np.ndarray) and mraw.ndim == 0)):
            V('misfit-is-not-a-number',
              f'misfit is returned as {type(mraw).__name__}')
        m = float(np.asarray(mraw))
        if not abs(m - ref['misfit']) <= RTOL*abs(ref['misfit']):
            V('misfit-differs-from-fresh', f'{m!r} vs {ref["misfit"]!r}')
    elif op == 'gradient':
        g = np.array(S.gradient)
        if not close(g, ref['gradient'], gtol(pid)):
            V('gradient-differs-from-fresh', _diff(g, ref['gradient']))
    elif op == 'jvec':
        j = np.array(S.jvec(v))
        if not close(j, ref['jvec'], max(RTOL, gtol(pid))):
            V('jvec-differs-from-fresh', _diff(j, ref['jvec']))
    elif op == 'jtvec':
        if 'weights' not in S.data.keys():
            try:
                j = np.array(S.jtvec(w))
            except AttributeError:
                return False      # precondition (data weights) not met
        else:
            j = np.array(S.jtvec(w))
        if not close(j, ref['jtvec'], gtol(pid)):
            V('jtvec-differs-from-fresh', _diff(j, ref['jtvec']))
    elif op == 'get_efield':
        e = np.array(S.get_efield(src, freq).field)
        if not close(e, ref['efield'], RTOL):
            V('efield-differs-from-fresh', _diff(e, ref['efield']))
    elif op == 'get_hfield':
        e = np.array(S.get_hfield(src, freq).field)
        if not close(e, ref['hfield'], RTOL):
            V('hfield-differs-from-fresh', _diff(e, ref['hfield']))
    elif op.startswith('clean:'):
        S.clean(op.split(':')[1])
    elif op.startswith('copy:'):
        C = S.copy(op.split(':')[1])
        mutate_original(S)
        st['S'] = C
        st['derived'] = True
    elif op.startswith('dict:'):
        st['S'] = emg3d.Simulation.from_dict(S.to_dict(op.split(':')[1]))
    elif op.startswith('file:'):
        _, fmt, what = op.split(':')
        st['nfile'] += 1
        fn = os.path.join(st['tmp'], f'sim{st["nfile"]}.{fmt}')
        S.to_file(fn, what=what, verb=0)
        C = emg3d.Simulation.from_file(fn, verb=0)
        mutate_original(S)
        st['S'] = C
        st['derived'] = True
    elif op.startswith('model:'):
        st['mid'] = op.split(':')[1]
        S.model = make_model(pid, st['mid'])
        S.clean('all')
    elif op == 'touch':
        # reading public attributes (many are lazily computed and cached) of
        # the simulation's parts is not an operation: nothing may change
        objs = [S.survey, S.model, S.model.grid] + \
            list(S.survey.sources.values()) + \
            list(S.survey.receivers.values())
        for o in objs:
            for name in dir(o):
                if name.startswith('_'):
                    continue
                try:
                    getattr(o, name)
                except Exception:  # noqa - needs arguments / not available
                    pass
        for name in ('data', 'gridding', 'gridding_opts', 'solver_opts',
                     'layered', 'layered_opts', 'file_dir', 'max_workers',
                     'name', 'info', 'tol_forward', 'tol_gradient'):
            getattr(S, name)
        repr(S)
        S.print_grid_info(return_info=True)
    elif op.startswith('model-inplace:'):
        # the model OBJECT stays, its arrays are overwritten in place
        st['mid'] = op.split(':')[1]
        m2 = make_model(pid, st['mid'])
        for name in ('property_x', 'property_y', 'property_z', 'mu_r',
                     'epsilon_r'):
            if getattr(S.model, name) is not None:
                getattr(S.model, name)[...] = getattr(m2, name)
        S.clean('all')
    elif op.startswith('noise:'):
        # explicit assignment of the noise model, then the documented clean
        st['nid'] = op.split(':')[1]
        S.survey.noise_floor, S.survey.relative_error = NOISE[st['nid']]
        S.clean('computed')
    else:
        raise ValueError(op)
    return True


def _diff(a, b):
    a, b = np.asarray(a), np.asarray(b)
    if a.shape != b.shape:
        return f'shape {a.shape} vs {b.shape}'
    with np.errstate(all='ignore'):
        return (f'max rel. difference '
                f'{np.nanmax(np.abs(a-b))/np.nanmax(np.abs(b)):.3e}')


def case(c):
    pid, hist, filemode = c['pid'], list(c['hist']), c.get('file', False)
    tmp = tempfile.mkdtemp(prefix='c12_')
    viol = []
    st = {'mid': 'm1', 'nid': 'n1', 'tmp': tmp, 'nfile': 0,
          'derived': False}
    key = None
    disabled = False
    step = None
    try:
        with warnings.catch_warnings():
            warnings.simplefilter('ignore')
            st['S'] = new_sim(pid, 'm1', os.path.join(tmp, 'fd')
                              if filemode else None)
            try:
                for i, op in enumerate(hist):
                    step = op
                    ok = apply(op, st, fresh(pid, st['mid'], st['nid']), viol,
                               pid)
                    if not ok:
                        disabled = True
                        break
                u = getattr(st['S'], '_c12_user', None)
                if u is not None and u[0] != u[1]:
                    viol.append({'cls': 'user-options-object-modified',
                                 'what': f'the solver_opts dict handed to '
                                         f'Simulation changed: {u[1]} -> '
                                         f'{u[0]}'})
                if not disabled and not viol:
                    key = canon(st['S'], st['mid'] + st['nid'])
                    # probes: what does the simulation report now?
                    step = 'probe'
                    S = st['S']
                    ref = fresh(pid, st['mid'], st['nid'])
                    syn = np.array(S.data.synthetic.data)
                    fin = ~np.isnan(syn)
                    if fin.any() and not close(syn[fin],
                                               ref['synthetic'][fin], RTOL):
                        viol.append({'cls': 'synthetic-differs-from-fresh',
                                     'what': 'stored synthetic data: ' +
                                     _diff(syn[fin], ref['synthetic'][fin])})
                    apply('misfit', st, ref, viol, pid)
                    if pid == 'P4':      # magnetic field asked for twice
                        apply('get_hfield', st, ref, viol, pid)
                        apply('get_hfield', st, ref, viol, pid)
                    apply('gradient', st, ref, viol, pid)
                    syn = np.array(S.data.synthetic.data)
                    if not close(syn, ref['synthetic'], RTOL):
                        viol.append({'cls': 'synthetic-differs-from-fresh',
                                     'what': 'after misfit/gradient: ' +
                                     _diff(syn, ref['synthetic'])})
            except Exception as e:  # noqa - undocumented exception
                kind = type(e).__name__
                derived_file = filemode and st['derived']
                cls = f'exception-{kind}-in-{step.split(":")[0]}'
                if derived_file and kind == 'FileNotFoundError':
                    cls = 'file_dir-copy-uses-files-of-its-original'
                viol.append({'cls': cls,
                             'what': f'history {hist}: {kind}: '
                                     f'{str(e)[:200]} (at step {step!r})'})
                key = None
    finally:
        shutil.rmtree(tmp, ignore_errors=True)
    for v in viol:
        v['what'] = f"{pid}{'/file' if filemode else ''} {hist}: " + \
            v['what'] if not v['what'].startswith('history') else v['what']
        if filemode and st['derived'] and 'differs-from-fresh' in v['cls']:
            v['cls'] = 'file_dir-copy-uses-files-of-its-original'
    computing = any(o in ('compute', 'misfit', 'gradient', 'jvec', 'jtvec',
                          'get_efield', 'get_hfield') for o in hist)
    return {'viol': viol, 'key': None if viol else key, 'disabled': disabled,
            'transitions': len(hist) + 2, 'compared': 3,
            'nontrivial': computing, 'outcome': key}


def prepare(ctx):
    impl.warm()


def run(ctx):
    prepare(ctx)
    q = ctx.quick
    ctx.assume(
        "histories are bounded in depth; states reached by different "
        "histories are merged when the canonical key (all attributes the "
        "Simulation methods read: flags, cached misfit/gradient, field "
        "slots, every data variable, tolerances, files) coincides",
        "every history is closed by the probes [read synthetic, misfit, "
        "gradient]; tolerance 1e-6 relative with solver tol 1e-10",
        "operations outside the alphabet (in-place edits of model arrays, "
        "survey edits) are not explored",
        "jtvec before any misfit (no data weights yet) is a disabled "
        "transition if it raises AttributeError")
    rule = ('BFS over operation histories (alphabet of %d operations), '
            'fresh Simulation per history, canonical-state merging; '
            'non-trivial = history contains a computing operation'
            % len(OPS))
    plans = [('P1-memory', 'P1', False, 3 if q else 4),
             ('P2-memory', 'P2', False, 2 if q else 3),
             ('P1-file_dir', 'P1', True, 2 if q else 3),
             ('P3-input-grid', 'P3', False, 2 if q else 3),
             ('P4-mu_r-input-grid', 'P4', False, 2 if q else 3)]
    budget = ctx.budget or (960 if q else 6000)
    share = {'P1-memory': 0.4, 'P2-memory': 0.2, 'P1-file_dir': 0.2,
             'P3-input-grid': 0.2, 'P4-mu_r-input-grid': 0.2}
    for name, pid, fm, depth in plans:
        if not ctx.wants(name):
            continue
        explore.bfs(ctx, name, FN, OPS, depth, {'pid': pid, 'file': fm},
                    rule=rule, time_cap=budget*share[name])
