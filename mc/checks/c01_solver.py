"""C01 - reported solver success certifies the returned field.

E1: full product of the core solver configuration (cycle x sslsolver x
semicoarsening x linerelaxation) on several small grids / models, plus a
deviation-bounded lattice over the remaining options, all on the real
``emg3d.solve``.  E4: the Krylov wrapper ``solver.krylov`` driven by a scripted
stand-in for the SciPy routine, all scripts up to a length.

The oracle never reads emg3d's bookkeeping: the residual of the field the
caller holds is recomputed with the reference FIT operator.
"""
import contextlib
import io
import itertools
import re
import warnings

import numpy as np

from .. import zoo, impl, space
from ..refmodel import fit

FN = 'mc.checks.c01_solver:case'
FN_K = 'mc.checks.c01_solver:krylov_case'

SLACK = 1e-3

CORE = {
    'cycle': ['F', 'V', 'W', None],
    'sslsolver': [False, 'bicgstab', 'cgs', 'gcrotmk'],
    'semicoarsening': [0, 1, 2, 3, True, 12, 1213],
    'linerelaxation': [0, 1, 2, 3, 4, 5, 6, 7, True, 47],
}

# Defaults first.  (cycle/sslsolver/sc/lr defaults here are the *plain* ones
# so that lattice deviations start from the simplest configuration.)
LATTICE = {
    'cycle': ['F', 'V', 'W', None],
    'sslsolver': [False, 'bicgstab', 'cgs', 'gcrotmk', True],
    'semicoarsening': [0, 1, 2, 3, True, 12, 1213, 4],
    'linerelaxation': [0, 1, 4, 7, True, 47, 8],
    'nu_init': [0, 1],
    'nu_pre': [2, 0, 1, 3],
    'nu_coarse': [1, 2, 5],
    'nu_post': [2, 0, 1],
    'clevel': [-1, 0, 1, 2],
    'tol': [1e-6, 1e-3, 1e-9],
    'maxit': [50, 1, 2, 3],
    'efield': [None, 'zeros', 'rnd', 'exact', 'near', 'lifted',
               'wrongdtype', 'nofreq'],
    'return_info': [True, False],
    'plain': [False, True],
    'verb': [0, -1, 1, 2, 3, 4, 5],
    'source': ['dipole', 'rnd', 'unit', 'real', 'zero', 'nofreq', 'weak'],
    'api': ['solve', 'solve_source'],
}

GRIDS = [
    {'shape': (4, 4, 4), 'w': 'geo'},
    {'shape': (8, 8, 8), 'w': 'uni'},
    {'shape': (5, 4, 3), 'w': 'alt'},
    {'shape': (2, 4, 8), 'w': 'rnd'},
    {'shape': (2, 2, 2), 'w': 'geo'},
    {'shape': (3, 3, 3), 'w': 'rnd'},
    {'shape': (6, 6, 6), 'w': 'geo'},
    {'shape': (8, 8, 8), 'w': 'geo'},
]
MODELS = [
    {'case': 'isotropic', 'prof': 'hom'},
    {'case': 'triaxial', 'prof': 'rnd', 'mu_r': True},
    {'case': 'VTI', 'prof': 'lay', 'eps_r': True},
    {'case': 'HTI', 'prof': 'rnd', 'mu_r': True, 'eps_r': True},
]


def _digits_ok(v, hi):
    if v is True or v is False:
        return True
    return all(int(ch) <= hi for ch in str(abs(int(v))))


def expected_error(cfg):
    """Documented ValueErrors, from the docstring rules only."""
    ssl = cfg['sslsolver']
    if cfg.get('plain') and ssl is True:
        ssl = False
    if not ssl and cfg['cycle'] is None:
        return True
    if not _digits_ok(cfg['semicoarsening'], 3):
        return True
    if not _digits_ok(cfg['linerelaxation'], 7):
        return True
    if cfg.get('efield') == 'wrongdtype':
        return True
    if cfg.get('source') == 'nofreq':
        return True
    return False


def make_source(grid, kind, freq):
    """Source field vector supported on interior edges only."""
    import emg3d
    n = tuple(grid.shape_cells)
    im = fit.interior_mask(n)
    if kind == 'weak':
        # a legal source of tiny amplitude (weak current, source-normalised
        # data, adjoint sources of small residuals): the solver is scale-free
        vec, src = make_source(grid, 'dipole', freq)
        return vec*1e-13, None
    if kind in ('dipole', 'real'):
        if min(n) >= 4:
            nd = [grid.nodes_x, grid.nodes_y, grid.nodes_z]
            cc = [grid.cell_centers_x, grid.cell_centers_y,
                  grid.cell_centers_z]
            # from inside cell 1 to inside cell n-2, oblique
            el = (0.7*cc[0][1] + 0.3*nd[0][2], 0.6*cc[0][-2] + 0.4*nd[0][-3],
                  cc[1][1], 0.5*(cc[1][-2] + nd[1][-2]) - 1e-3,
                  0.2*cc[2][1] + 0.8*nd[2][2], cc[2][-2])
            src = emg3d.TxElectricDipole(el, strength=1+0.5j if freq > 0
                                         else 2.0)
            sf = emg3d.get_source_field(grid, src, freq)
            vec = np.array(sf.field)*im
            return vec, src
        kind = 'rnd'
    dtype = complex if freq > 0 else float
    if kind == 'rnd':
        return zoo.random_field(grid, 'src', dtype)*1e-6, None
    if kind == 'unit':
        vec = np.zeros(im.size, dtype=dtype)
        vec[np.flatnonzero(im)[len(np.flatnonzero(im))//2]] = 1e-5
        return vec, None
    if kind == 'zero':
        return np.zeros(im.size, dtype=dtype), None
    raise ValueError(kind)


def _upper_planes(n):
    """Masks (per component) of tangential edges on the upper boundary
    planes (last node index of the transverse directions)."""
    out = []
    for d, sh in enumerate(fit.shapes(n)):
        m = np.zeros(sh, dtype=bool)
        for o in range(3):
            if o != d:
                sl = [slice(None)]*3
                sl[o] = -1
                m[tuple(sl)] = True
        out.append(m)
    return out


def reported(cfg, info, out):
    """Reported status: (known, success, message)."""
    if info is not None:
        return True, info['exit'] == 0, info['exit_message']
    verb = cfg.get('verb', 0)
    if verb < 0:
        return False, None, None
    if verb == 0:
        return True, '* WARNING' not in out, out.strip()
    m = re.findall(r"(NOT CONVERGED|CONVERGED|DIVERGED|STAGNATED|Error in"
                   r"|NOTHING DONE|RETURN ZERO)", out)
    if not m:
        return False, None, None
    return True, m[-1] in ('CONVERGED', 'NOTHING DONE', 'RETURN ZERO'), m[-1]


def build(c):
    grid = zoo.mesh(c['grid'])
    model = zoo.model(grid, c['model'])
    return grid, model


def case(c):
    import emg3d
    cfg = dict(c['cfg'])
    grid, model = build(c)
    n = tuple(grid.shape_cells)
    im = fit.interior_mask(n)
    idx = np.flatnonzero(im)
    skind = cfg.pop('source', 'dipole')
    freq = -3.0 if skind == 'real' else c.get('freq', 2.0)
    ekind = cfg.pop('efield', None)
    api = cfg.pop('api', 'solve')
    viol = []
    tol = cfg.get('tol', 1e-6)

    def V(cls, what, **kw):
        viol.append(dict(cls=cls, what=what, **kw))

    if skind == 'nofreq':
        svec, src = make_source(grid, 'rnd', freq)
        sfield = emg3d.Field(grid, data=svec)
    else:
        svec, src = make_source(grid, skind, freq)
        sfield = emg3d.Field(grid, data=svec.copy(), frequency=freq)
    dtype = sfield.field.dtype
    sval = zoo.sval_of(freq)
    A = fit.assemble_for(model, sval)
    if np.dtype(dtype).kind != 'c':
        A = A.real
    snorm = np.linalg.norm(svec)

    # caller-supplied initial field (its amplitude follows the amplitude of
    # the source: a start field many orders of magnitude larger than the
    # solution has a rounding error above tol ||s|| before the solver starts)
    efield = None
    e0 = None
    amp = 1.0 if skind != 'weak' else 1e-13
    if ekind is not None:
        if ekind == 'zeros':
            e0 = np.zeros(im.size, dtype=dtype)
        elif ekind == 'rnd':   # non-zero tangential boundary values too
            e0 = zoo.random_field(grid, 'e0', dtype, pec=False)*1e-3*amp
        elif ekind in ('exact', 'near'):
            e0 = fit.solve_direct(A, svec, n).astype(dtype)
            if ekind == 'near':
                e0 = e0*(1 + 1e-4)
        elif ekind == 'lifted':
            # solves the system only thanks to non-zero tangential values on
            # the upper boundary planes (which the PEC zeroing must remove
            # BEFORE the 'already good enough' test)
            bvals = zoo.random_field(grid, 'lift', dtype, pec=False)*1e-9*amp
            upper = np.concatenate([
                np.ravel(m_, order='F') for m_ in _upper_planes(n)])
            bvals = bvals*upper
            rhs = svec - A @ bvals
            e0 = (fit.solve_direct(A, rhs, n) + bvals).astype(dtype)
        elif ekind == 'wrongdtype':
            e0 = np.zeros(im.size, dtype=float if np.dtype(dtype).kind == 'c'
                          else complex)
        elif ekind == 'nofreq':
            e0 = zoo.random_field(grid, 'e0', dtype)*1e-3*amp
        if ekind in ('wrongdtype', 'nofreq'):
            efield = emg3d.Field(grid, data=e0.copy())
        else:
            efield = emg3d.Field(grid, data=e0.copy(), frequency=freq)
        cfg['efield'] = efield
    use_ss = (api == 'solve_source' and src is not None and skind != 'nofreq')

    expect_err = expected_error(dict(c['cfg']))
    buf = io.StringIO()
    ret = None
    err = None
    with contextlib.redirect_stdout(buf), warnings.catch_warnings():
        warnings.simplefilter('ignore')
        try:
            if use_ss:
                # same source, real get_source_field inside solve_source;
                # compare against the unmasked field it builds.
                sfield = emg3d.get_source_field(grid, src, freq)
                svec = np.array(sfield.field)
                snorm = np.linalg.norm(svec)
                ret = emg3d.solve_source(model, src, freq, **cfg)
            else:
                ret = emg3d.solve(model, sfield, **cfg)
        except ValueError as e:
            err = e
    out = buf.getvalue()
    if err is not None:
        if not expect_err:
            V('undocumented-ValueError', f'ValueError: {err}')
        return {'viol': viol, 'nontrivial': False, 'outcome': 'ValueError',
                'compared': 1}
    if expect_err:
        V('missing-ValueError', 'invalid input accepted silently')
        return {'viol': viol, 'outcome': 'missing-error'}

    # unpack return value: protocol (h)
    want_info = cfg.get('return_info', False)
    info = None
    rfield = None
    if efield is None:
        if want_info:
            ok = (isinstance(ret, tuple) and len(ret) == 2 and
                  isinstance(ret[0], emg3d.Field) and isinstance(ret[1], dict))
            if ok:
                rfield, info = ret
        else:
            ok = isinstance(ret, emg3d.Field)
            rfield = ret
        if not ok:
            V('return-protocol', f'fresh call returned {type(ret).__name__}')
            return {'viol': viol}
    else:
        if want_info:
            ok = isinstance(ret, dict)
            info = ret
        else:
            ok = ret is None
        if not ok:
            V('return-protocol',
              f'in-place call returned {type(ret).__name__}')
            return {'viol': viol}
        rfield = efield          # the object the caller holds
    e = np.array(rfield.field)

    known, success, message = reported(c['cfg'], info, out)

    # (c) dtype
    if e.dtype != dtype:
        V('field-dtype', f'field dtype {e.dtype} != source dtype {dtype}')
    # (b) PEC: tangential boundary entries exactly zero
    nb = np.count_nonzero(e[~im])
    if nb and (success or efield is not None):
        V('pec-boundary-nonzero',
          f'{nb} tangential boundary entries non-zero (max '
          f'{np.abs(e[~im]).max():.2e})')
    # independent residual
    r = np.linalg.norm((svec - A @ e)[idx]) if np.all(np.isfinite(e)) \
        else np.inf
    limit = tol*snorm*(1 + SLACK)
    zero_src = snorm == 0
    if zero_src:
        # (f) zero source => all-zero field in the object the caller holds
        if np.count_nonzero(e):
            V('zero-source-nonzero-field',
              f'zero source, but the field the caller holds has '
              f'{np.count_nonzero(e)} non-zero entries '
              f'(efield={ekind}, reported success={success})')
        if known and success is False:
            V('zero-source-reported-failure', f'message {message!r}')
    elif known:
        if success and not r <= limit:
            V('success-but-residual-above-tol',
              f'exit 0 ({message}), but ||s - A e|| = {r:.3e} > tol ||s|| = '
              f'{tol*snorm:.3e}', observed=r, expected=tol*snorm)
        if not success and r <= tol*snorm*(1 - SLACK) and False:
            pass  # a failure report with a good field is not a violation
    if info is not None:
        # (e) status <-> message
        if (info['exit'] == 0) != (info['exit_message'] == 'CONVERGED'):
            V('exit-message-mismatch',
              f"exit {info['exit']} with message {info['exit_message']!r}")
        if info['exit'] not in (0, 1):
            V('exit-status-domain', f"exit = {info['exit']!r}")
        if info['exit'] == 1 and not str(info['exit_message']).strip():
            V('failure-without-message', 'exit 1 with empty message')
        if info['tol'] != tol:
            V('info-tol', f"info tol {info['tol']} != {tol}")
        if not zero_src:
            # (d) the reported figures describe that very field
            if info['exit'] == 0:
                ae = info['abs_error']
                if not abs(ae - r) <= 1e-3*max(r, 1e-3*tol*snorm) + 1e-12*snorm:
                    V('reported-error-not-of-returned-field',
                      f"exit 0: abs_error {ae:.6e} but residual of the "
                      f"returned field is {r:.6e} "
                      f"(sslsolver={c['cfg'].get('sslsolver')})",
                      observed=ae, expected=r)
            if not abs(info['ref_error'] - snorm) <= 1e-12*snorm:
                V('ref-error', f"ref_error {info['ref_error']} != ||s|| "
                  f"{snorm}")
            if np.isfinite(info['abs_error']) and not abs(
                    info['rel_error'] - info['abs_error']/info['ref_error']
                    ) <= 1e-12*abs(info['rel_error']) + 1e-300:
                V('rel-error', 'rel_error != abs_error/ref_error')
            # run that did not reach tol => failure
            if r > limit and info['exit'] == 0:
                pass  # already reported above
    oc = ('ok' if success else 'fail' if known else 'unknown',
          str(message)[:12] if not success else '',
          None if info is None else min(int(info['it_mg']), 3),
          None if info is None else min(int(info['it_ssl']), 3))
    nontriv = bool(info is not None and (info['it_mg'] + info['it_ssl']) > 0)
    return {'viol': viol, 'compared': 1, 'nontrivial': nontriv or
            (known and not zero_src), 'outcome': oc,
            'count': {'success': int(bool(success)),
                      'failure_reports': int(known and not success),
                      'iterated': int(nontriv)}}


# ---------------------------------------------------------------- E4 ------

# ------------------------------------------- solves on ONE re-used Model
FN_R = 'mc.checks.c01_solver:case_reuse'
REUSE_OPS = ('S1', 'S2', 'Mx', 'Mxi', 'Mz', 'Mmu', 'Meps')


def case_reuse(c):
    """A sequence of solves on one Model OBJECT that is updated in between
    (assignment through the setters, in-place edit of the arrays): every
    success report certifies the field for the model as it is at that
    moment.  Nothing of an earlier solve may stick to the model or grid."""
    import emg3d
    grid, model = build(c)
    if c.get('basemesh'):
        # the minimal mesh class of emg3d instead of the discretize one
        bgrid = emg3d.meshes.BaseMesh(h=[np.array(x) for x in grid.h],
                                      origin=np.array(grid.origin))
        model = zoo.model(bgrid, c['model'])
    n = tuple(grid.shape_cells)
    idx = np.flatnonzero(fit.interior_mask(n))
    viol, compared, nsolve = [], 0, 0
    freqs = {'S1': c.get('freq', 2.0), 'S2': -3.0}
    k = 0
    for step, op in enumerate(c['ops']):
        k += 1
        r_ = zoo.rng('c01', 'reuse', step)
        if op in ('Mx', 'Mxi', 'Mz', 'Mmu', 'Meps'):
            name = {'Mx': 'property_x', 'Mxi': 'property_x',
                    'Mz': 'property_z', 'Mmu': 'mu_r',
                    'Meps': 'epsilon_r'}[op]
            cur = getattr(model, name)
            if cur is None:
                continue                   # property not part of this model
            fac = r_.uniform(0.3, 3.0, cur.shape)
            if op == 'Mxi':
                cur *= fac                 # in place, same array object
            else:
                setattr(model, name, cur*fac)
            continue
        freq = freqs[op]
        svec, _ = make_source(grid, 'dipole' if freq > 0 else 'real', freq)
        sfield = emg3d.Field(model.grid, data=svec.copy(), frequency=freq)
        A = fit.assemble_for(model, zoo.sval_of(freq))
        if sfield.field.dtype.kind != 'c':
            A = A.real
        with warnings.catch_warnings():
            warnings.simplefilter('ignore')
            efield, info = emg3d.solve(model, sfield, return_info=True,
                                       verb=-1, **c['cfg'])
        nsolve += 1
        e = np.array(efield.field)
        snorm = np.linalg.norm(svec)
        r = np.linalg.norm((svec - A @ e)[idx])
        tol = c['cfg'].get('tol', 1e-6)
        compared += 2
        hist = list(c['ops'][:step+1])
        if info['exit'] == 0 and not r <= tol*snorm*(1 + SLACK):
            viol.append({
                'cls': 'success-but-residual-above-tol',
                'what': f'history {hist} on one Model object: exit 0 '
                        f'({info["exit_message"]}) but ||s - A e|| = '
                        f'{r:.3e} > tol ||s|| = {tol*snorm:.3e} for the '
                        'model as it is now', 'observed': r,
                'expected': tol*snorm})
        elif info['exit'] == 0 and not abs(info['abs_error'] - r) <= \
                1e-3*max(r, 1e-3*tol*snorm) + 1e-12*snorm:
            viol.append({
                'cls': 'reported-error-not-of-returned-field',
                'what': f'history {hist}: abs_error {info["abs_error"]:.3e}'
                        f' vs independent residual {r:.3e}'})
        if viol:
            break
    return {'viol': viol, 'compared': compared, 'transitions': len(c['ops']),
            'nontrivial': nsolve > 1,
            'outcome': (nsolve, c['cfg'].get('sslsolver', True) is not False)}


def reuse_cases(tier):
    out = []
    depth = 3 if tier == 'quick' else 4
    cfgs = [{'sslsolver': False, 'semicoarsening': False,
             'linerelaxation': False, 'tol': 1e-6},
            {'sslsolver': 'bicgstab', 'tol': 1e-6}]
    mods = ('Mx', 'Mxi', 'Mz', 'Mmu', 'Meps')
    for g in (GRIDS[0], GRIDS[3]):
        for m in (MODELS[1], MODELS[3]) if tier == 'quick' else MODELS:
            for cfg in cfgs:
                for d in range(2, depth + 1):
                    for ops in itertools.product(REUSE_OPS, repeat=d):
                        # histories that start and end with a solve and have
                        # no two modifications of the same kind in a row
                        if ops[0][0] != 'S' or ops[-1][0] != 'S':
                            continue
                        if not any(o in mods for o in ops) and \
                                len(set(ops)) == 1 and d > 2:
                            continue
                        if any(a == b and a in mods
                               for a, b in zip(ops, ops[1:])):
                            continue
                        out.append({'grid': g, 'model': m, 'cfg': cfg,
                                    'ops': list(ops)})
                        if d == 2 or (ops[1][0] == 'S' and d == 3):
                            out.append({'grid': g, 'model': m, 'cfg': cfg,
                                        'ops': list(ops), 'basemesh': True})
    return out


ACTIONS = ('CB', 'NOCB', 'PREC')
RETURNS = ('R0', 'RMAX', 'RNEG')


def scripts(maxlen):
    """All scripts: body over ACTIONS (length 0..maxlen-1) + one return."""
    for L in range(0, maxlen):
        for body in itertools.product(ACTIONS, repeat=L):
            for ret in RETURNS:
                yield list(body) + [ret]


def krylov_case(c):
    """Drive the real solver.solve/krylov with a scripted SciPy routine."""
    import emg3d
    import scipy.sparse.linalg as ssl
    script = list(c['script'])
    grid, model = build(c)
    n = tuple(grid.shape_cells)
    im = fit.interior_mask(n)
    idx = np.flatnonzero(im)
    freq = c.get('freq', 2.0)
    svec, _ = make_source(grid, c.get('source', 'rnd'), freq)
    sfield = emg3d.Field(grid, data=svec.copy(), frequency=freq)
    A = fit.assemble_for(model, zoo.sval_of(freq))
    if freq < 0:
        A = A.real
    xstar = fit.solve_direct(A, svec, n)
    snorm = np.linalg.norm(svec)
    tol = c.get('tol', 1e-3)
    name = c.get('solver', 'bicgstab')
    viol = []
    st = {'steps': 0, 'skipped': None, 'amat_err': 0.0, 'prec': 0,
          'kwargs_ok': True}

    def standin(A=None, b=None, x0=None, maxiter=None, M=None, callback=None,
                atol=None, **kw):
        st['kwargs_ok'] = (abs(kw.get('rtol', kw.get('tol', -1)) - tol)
                           < 1e-300 and np.array_equal(b, svec))
        k = 0
        x = np.array(x0, dtype=b.dtype)

        def iterate(k):
            return (xstar*(1 - 0.05**k) + np.asarray(x0)*0.05**k
                    ).astype(b.dtype)
        for act in script:
            if act in ('CB', 'NOCB'):
                k += 1
                x = iterate(k)
                if act == 'CB':
                    callback(x)
            elif act == 'PREC':
                if M is not None:
                    rr = b - A.matvec(x)
                    M.matvec(rr)
                    st['prec'] += 1
            else:
                ax = A.matvec(x)
                ref = Aref @ x
                st['amat_err'] = float(np.abs((ax - ref)[idx]).max() /
                                       max(np.abs(ref[idx]).max(), 1e-300))
                res = np.linalg.norm((b - ax)[idx])
                st['steps'] = k
                if act == 'R0':
                    # SciPy's contract: 0 only if its criterion is met.
                    if res <= tol*snorm:
                        return x, 0
                    st['skipped'] = 'R0 not enabled'
                    return x, maxiter
                if act == 'RMAX':
                    return x, maxiter
                return x, -1
        raise AssertionError('script without return')

    Aref = A
    orig = getattr(ssl, name)
    setattr(ssl, name, standin)
    buf = io.StringIO()
    try:
        with contextlib.redirect_stdout(buf), warnings.catch_warnings():
            warnings.simplefilter('ignore')
            efield, info = emg3d.solve(
                model, sfield, sslsolver=name, cycle=c.get('cycle', 'F'),
                semicoarsening=c.get('sc', 0), linerelaxation=c.get('lr', 0),
                tol=tol, maxit=c.get('maxit', 5), return_info=True, verb=0)
    finally:
        setattr(ssl, name, orig)
    e = np.array(efield.field)
    r = np.linalg.norm((svec - A @ e)[idx])

    def V(cls, what, **kw):
        viol.append(dict(cls=cls, what=what, **kw))
    if not st['kwargs_ok']:
        V('krylov-call-arguments', 'tolerance / rhs handed to SciPy differ')
    if st['amat_err'] > 1e-11:
        V('krylov-amatvec-differs', f"A.matvec vs A_ref: {st['amat_err']:.2e}")
    if (info['exit'] == 0) != (info['exit_message'] == 'CONVERGED'):
        V('exit-message-mismatch', f"{info['exit']} {info['exit_message']!r}")
    last = script[-1]
    if info['exit'] == 0:
        if not r <= tol*snorm*(1 + SLACK):
            V('success-but-residual-above-tol',
              f'script {script}: exit 0, residual {r:.3e} > {tol*snorm:.3e}')
        if not abs(info['abs_error'] - r) <= (1e-3*max(r, 1e-3*tol*snorm) +
                                              1e-12*snorm):
            V('reported-error-not-of-returned-field',
              f"script {script}: exit 0, abs_error {info['abs_error']:.6e} "
              f"but the returned field has residual {r:.6e}",
              observed=info['abs_error'], expected=r)
        if np.count_nonzero(e[~im]):
            V('pec-boundary-nonzero', 'boundary entries non-zero')
    if last in ('RMAX', 'RNEG') or st['skipped']:
        if info['exit'] == 0:
            V('solver-failure-reported-as-success',
              f'script {script}: SciPy info != 0 but exit 0')
        if not str(info['exit_message']).strip():
            V('failure-without-message', f'script {script}')
    if last == 'R0' and not st['skipped'] and info['exit'] != 0 \
            and 'DIVERGED' not in info['exit_message'] \
            and 'STAGNATED' not in info['exit_message']:
        V('solver-success-reported-as-failure',
          f"script {script}: SciPy returned 0, emg3d says "
          f"{info['exit_message']!r}")
    return {'viol': viol, 'transitions': len(script), 'compared': 1,
            'nontrivial': len(script) > 1,
            'outcome': (info['exit'], info['exit_message'][:10],
                        bool(st['skipped'])),
            'count': {'prec_calls': st['prec']}}


# ----------------------------------------------------------------- run ----

def prepare(ctx):
    impl.warm()


def core_cases(grids, models):
    out = []
    for g in grids:
        for m in models:
            for cfg in space.product(CORE):
                cfg = dict(cfg)
                cfg.update(return_info=True, verb=0, source='dipole')
                out.append({'grid': g, 'model': m, 'cfg': cfg})
    return out


def lattice_cases(grids, models, depth):
    out = []
    for g in grids:
        for m in models:
            for cfg, dev in space.lattice(LATTICE, depth):
                out.append({'grid': g, 'model': m, 'cfg': cfg,
                            'dev': [list(d) for d in dev]})
    return out


def krylov_cases(maxlen, variants):
    out = []
    for v in variants:
        for s in scripts(maxlen):
            d = dict(v)
            d['script'] = s
            out.append(d)
    return out


def run(ctx):
    prepare(ctx)
    ctx.assume(
        "grids bounded by 8^3 cells; widths/models from the alphabets of "
        "DESIGN.md 1.3; sources supported on interior edges only "
        "(precondition of the property)",
        "oracle items (a),(b),(d) apply to success reports only",
        f"success certificate ||s - A_ref e|| <= tol ||s|| (1 + {SLACK})",
        "E4: the scripted SciPy stand-in honours SciPy's contract (returns 0 "
        "only if its own residual test is met)")
    q = ctx.quick
    cap = ctx.budget
    if ctx.wants('core'):
        cs = core_cases(GRIDS[:2] if q else GRIDS,
                        [MODELS[0], MODELS[1], MODELS[3]] if q else MODELS)
        ctx.explore('core', FN, cs, engine='E1',
                    rule='full product cycle x sslsolver x semicoarsening x '
                         'linerelaxation (1120 configs incl. the invalid '
                         'pair) per grid x model; non-trivial = a status was '
                         'reported for a non-zero source',
                    time_cap=cap or (480 if q else 3000))
    if ctx.wants('lattice'):
        cs = lattice_cases(GRIDS[:3] if q else GRIDS[:6],
                           MODELS[1:2] if q else MODELS[:3], 1 if q else 2)
        ctx.explore('lattice', FN, cs, engine='E1',
                    rule=f'all configurations with <= {1 if q else 2} '
                         'non-default options out of 17 option domains',
                    time_cap=cap or (240 if q else 3000))
    if ctx.wants('reuse'):
        ctx.explore('model-reuse', FN_R, reuse_cases(ctx.tier), engine='E2',
                    rule='all histories up to length 3 (thorough 4) over '
                         '{solve f>0, solve f<0, assign property_x, edit '
                         'property_x in place, assign property_z / mu_r / '
                         'epsilon_r} on ONE Model object, starting and ending '
                         'with a solve, x 2 grids x models x {multigrid, '
                         'bicgstab}; every success is certified against the '
                         'model as it is at that moment; non-trivial = more '
                         'than one solve',
                    time_cap=cap or (300 if q else 1500))
    if ctx.wants('init'):
        dom = {'source': LATTICE['source'], 'efield': LATTICE['efield'],
               'return_info': [True, False],
               'sslsolver': [False, 'bicgstab'], 'verb': [0, 1]}
        cs = []
        for g in (GRIDS[:3] if q else GRIDS[:6]):
            for cfg in space.product(dom):
                full = space.default(LATTICE)
                full.update(cfg)
                cs.append({'grid': g, 'model': MODELS[1], 'cfg': full})
        ctx.explore('source-x-initial-field', FN, cs, engine='E1',
                    rule='full product source kind x caller-supplied field '
                         'kind x return_info x sslsolver x verb per grid',
                    time_cap=cap or (240 if q else 1200))
    if ctx.wants('krylov'):
        variants = [
            {'grid': GRIDS[0], 'model': MODELS[1], 'solver': s, 'cycle': cy,
             'tol': 1e-3, 'source': 'rnd'}
            for s in ('bicgstab', 'cgs', 'gcrotmk') for cy in ('F', None)]
        if not q:
            variants += [
                {'grid': GRIDS[3], 'model': MODELS[3], 'solver': 'bicgstab',
                 'cycle': 'V', 'tol': 1e-2, 'source': 'rnd', 'freq': -3.0,
                 'sc': True, 'lr': True}]
        cs = krylov_cases(4 if q else 6, variants)
        ctx.explore('krylov-scripts', FN_K, cs, engine='E4',
                    rule='all scripts over {CB, NOCB, PREC}* + {R0, RMAX, '
                         'RNEG} up to the length bound, per solver x '
                         'preconditioner variant',
                    time_cap=cap or (240 if q else 1800))
