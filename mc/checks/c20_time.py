"""C20 - the time-domain helper partitions and fills the required frequencies
consistently.

Engine E1, full product  time vector x transform (dlf: 3 filters x lagged /
splined; fftlog: 3 settings) x signal {-1,0,1} x band (fmin, fmax placed
relative to the required frequencies: far outside, cutting, exactly on required
frequencies, two adjacent required frequencies, covering everything ...) x
coarse option (none, every_x_freq 1/2/3/5, input_freq inside / partly outside /
subset of the required ones / as many as the required ones).  Every
configuration is one case; inside the case a set of spectra is pushed through
the real ``Fourier.interpolate`` / ``Fourier.freq2time``: three analytic
diffusive responses, a real constant, a sign-changing spectrum and unit spikes
at the computed frequencies (all of them in the thorough tier).

Reference (this file): required frequencies by the checker's own call of
``empymod.utils.check_time``; the three groups from plain comparisons with
fmin / fmax; the fill rule as documented in the class docstring - data taken
where the coarse frequencies *are* the required ones, otherwise the
not-a-knot cubic spline in log(f) (scipy ``CubicSpline``; emg3d uses FITPACK),
PCHIP through an extra point (1e-100 Hz, Re(data[0]) + 0j) below fmin, zero
above fmax; ``empymod.model.tem`` applied by the checker.

Two small explorations of the mutable interface: ``exclusive`` (input_freq and
every_x_freq together: warning, exactly one kept) and ``setters`` (all
operation sequences up to length 2 on a live object == a freshly built object
with the resulting settings).
"""
import copy
import itertools
import warnings

import numpy as np

FN = 'mc.checks.c20_time:case'
FN_EXCL = 'mc.checks.c20_time:case_exclusive'
FN_SET = 'mc.checks.c20_time:case_setters'

TIMES = {
    'log5': lambda: np.logspace(-2, 1, 5),
    'log20': lambda: np.logspace(-2, 1, 20),
    'lin': lambda: np.linspace(0.1, 2.0, 8),
    'single': lambda: np.array([1.0]),
}
FTS = {
    'k81-lag': ('dlf', {'dlf': 'key_81_2009', 'pts_per_dec': -1}),
    'k81-spl': ('dlf', {'dlf': 'key_81_2009', 'pts_per_dec': 10}),
    'k201-lag': ('dlf', {'dlf': 'key_201_2012', 'pts_per_dec': -1}),
    'k201-spl': ('dlf', {'dlf': 'key_201_2012', 'pts_per_dec': 10}),
    'k601-lag': ('dlf', {'dlf': 'key_601_2009', 'pts_per_dec': -1}),
    'k601-spl': ('dlf', {'dlf': 'key_601_2009', 'pts_per_dec': 10}),
    'fftlog': ('fftlog', {}),
    'fftlog-5': ('fftlog', {'pts_per_dec': 5}),
    'fftlog-dec': ('fftlog', {'add_dec': [-3, 2]}),
}
SIGNALS = (0, 1, -1)
BANDS = ('all', 'cut', 'on', 'on-ends', 'two', 'five', 'out-lo', 'out-hi',
         'lo-half', 'hi-half', 'just-in')
COARSE = ('none', 'x1', 'x2', 'x3', 'x5', 'in', 'part', 'sub', 'same-size')

TOL_SPLINE = 1e-9     # FITPACK vs CubicSpline, relative to max |data|
TOL_PASS = 1e-12      # pass-through through the interpolating spline
SAME_SIZE = 'input-freq-of-same-size-as-required-not-interpolated'


def band(req, name):
    """fmin, fmax relative to the (ascending) required frequencies."""
    n = req.size
    i1, i2 = n//4, (3*n)//4

    def mid(i):
        return float(np.sqrt(req[i]*req[i+1]))

    if name == 'all':            # covering everything
        return float(req[0]/10), float(req[-1]*10)
    if name == 'cut':            # cutting the required range between samples
        return mid(i1), mid(i2)
    if name == 'on':             # exactly on required frequencies
        return float(req[i1]), float(req[i2])
    if name == 'on-ends':        # exactly on the lowest / highest required
        return float(req[0]), float(req[-1])
    if name == 'two':            # two adjacent required frequencies
        return float(req[i1]), float(req[i1+1])
    if name == 'five':           # five adjacent required frequencies
        return float(req[i1]), float(req[i1+4])
    if name == 'out-lo':         # far outside, below
        return float(req[0]/100), float(req[0]/10)
    if name == 'out-hi':         # far outside, above
        return float(req[-1]*10), float(req[-1]*100)
    if name == 'lo-half':        # nothing to extrapolate
        return float(req[0]/10), mid(i2)
    if name == 'hi-half':        # nothing to set to zero
        return mid(i1), float(req[-1]*10)
    if name == 'just-in':        # band edges one ulp inside two samples
        return float(np.nextafter(req[i1], np.inf)), \
            float(np.nextafter(req[i2], 0))
    raise ValueError(name)


def coarse_kwargs(req, fmin, fmax, name):
    """kwargs for Fourier and the expected coarse frequency array."""
    if name == 'none':
        return {}, req
    if name[0] == 'x':
        x = int(name[1:])
        return {'every_x_freq': x}, req[::x]
    if name == 'in':
        f = np.geomspace(fmin, fmax, 13)
        f[0], f[-1] = fmin, fmax
        return {'input_freq': f}, f
    if name == 'part':
        f = np.geomspace(fmin/30, fmax*30, 23)
        return {'input_freq': f}, f
    if name == 'sub':            # every second required frequency of the band
        f = req[(req >= fmin) & (req <= fmax)][::2].copy()
        if f.size == 0:
            f = np.array([np.sqrt(fmin*fmax)])
        return {'input_freq': f}, f
    if name == 'same-size':      # as many as required, but other frequencies
        f = req*1.3
        return {'input_freq': f}, f
    raise ValueError(name)


def spectra(fc, spikes):
    """(name, data) pairs on the computed frequencies fc."""
    out = []
    g = float(np.sqrt(fc[0]*fc[-1]))
    for k, f0 in enumerate((g/30, g, g*30)):
        with np.errstate(all='ignore'):
            out.append((f'diffusive-{k}', np.exp(-np.sqrt(2j*np.pi*fc/f0))))
    out.append(('const', np.full(fc.size, 2.5 + 0j)))
    lf = np.log(fc)
    out.append(('sign', np.cos(2*lf) + 1j*np.sin(3*lf + 1)))
    for k in spikes:
        e = np.zeros(fc.size, dtype=complex)
        e[k] = 1 + 0.5j
        out.append((f'spike-{k}', e))
    return out


def spike_indices(nc, tier):
    if tier != 'quick' or nc <= 16:
        return list(range(nc))
    s = set(range(4)) | set(range(nc-4, nc)) | set(range(0, nc, -(-nc//8)))
    return sorted(s)


def ref_required(t, sig, ft, ftarg):
    """Required frequencies / checked arguments by the checker's own call."""
    import empymod
    with warnings.catch_warnings():
        warnings.simplefilter('ignore')
        out = empymod.utils.check_time(t, sig, ft, copy.deepcopy(ftarg), 0)
    return out[1], out[2], out[3]


def ref_fill(req, fmin, fmax, fc, fd, same_grid):
    """Documented fill rule, written independently."""
    from scipy.interpolate import CubicSpline, pchip_interpolate
    out = np.zeros(req.size, dtype=complex)
    ib = (req >= fmin) & (req <= fmax)
    ie = req < fmin
    if same_grid:
        out[ib] = fd
    else:
        cs = CubicSpline(np.log(fc), fd, bc_type='not-a-knot')
        out[ib] = cs(np.log(req[ib]))
    if ie.any():
        x = np.r_[1e-100, fc]
        re = pchip_interpolate(x, np.r_[fd[0].real, fd.real], req[ie])
        im = pchip_interpolate(x, np.r_[0.0, fd.imag], req[ie])
        out[ie] = re + 1j*im
    return out


def new_fourier(t, fmin, fmax, sig, ft, ftarg, kw):
    import emg3d
    with warnings.catch_warnings():
        warnings.simplefilter('ignore', DeprecationWarning)
        return emg3d.time.Fourier(t, fmin, fmax, signal=sig, ft=ft,
                                  ftarg=copy.deepcopy(ftarg), verb=0,
                                  **copy.deepcopy(kw))


def tem_ref(filled, off, req, t, sig, ft, targ):
    import empymod
    with warnings.catch_warnings():
        warnings.simplefilter('ignore')
        td, _ = empymod.model.tem(filled[:, None], np.array(off), freq=req,
                                  time=t, signal=sig, ft=ft, ftarg=targ)
    return np.squeeze(td)


def describe(c, fmin, fmax):
    return (f"time={c['time']} ft={c['ft']} signal={c['sig']} "
            f"band={c['band']} (fmin={fmin!r}, fmax={fmax!r}) "
            f"coarse={c['coarse']}")


def case(c):
    with np.errstate(all='ignore'), warnings.catch_warnings():
        warnings.simplefilter('ignore', RuntimeWarning)
        return _case(c)


def _case(c):
    t = TIMES[c['time']]()
    ft, ftarg = FTS[c['ft']]
    sig = c['sig']
    tier = c.get('tier', 'quick')
    viol = []
    compared = 0
    req, ft_chk, targ = ref_required(t, sig, ft, ftarg)
    fmin, fmax = band(req, c['band'])
    kw, coarse = coarse_kwargs(req, fmin, fmax, c['coarse'])
    what = describe(c, fmin, fmax)
    F = new_fourier(t, fmin, fmax, sig, ft, ftarg, kw)

    # ------------------------------------------------ frequencies, groups
    freq = np.asarray(F.freq_required)
    compared += 1
    if not np.array_equal(freq, req):
        viol.append({'cls': 'required-frequencies-differ-from-empymod',
                     'what': f'{what}: freq_required != '
                             'empymod.utils.check_time'})
        return {'viol': viol, 'compared': compared}
    ie = np.asarray(F.ifreq_extrapolate)
    ii = np.asarray(F.ifreq_interpolate)
    r_ie, r_ii, r_iz = req < fmin, (req >= fmin) & (req <= fmax), req > fmax
    compared += 3
    if (ie & ii).any() or not np.array_equal(ie | ii | r_iz,
                                             np.ones(req.size, bool)) \
            or ((ie | ii) & r_iz).any():
        k = int(np.flatnonzero((ie & ii) | ~(ie | ii | r_iz) |
                               ((ie | ii) & r_iz))[0])
        viol.append({'cls': 'groups-not-a-partition',
                     'what': f'{what}: required frequency #{k} = {req[k]!r} '
                             f'is in extrapolate={bool(ie[k])}, interpolate='
                             f'{bool(ii[k])}, above-fmax={bool(r_iz[k])}'})
    if not (np.array_equal(ie, r_ie) and np.array_equal(ii, r_ii)):
        bad = np.flatnonzero((ie != r_ie) | (ii != r_ii))
        k = int(bad[0])
        viol.append({'cls': 'group-membership-wrong',
                     'what': f'{what}: required frequency #{k} = {req[k]!r}: '
                             f'extrapolate={bool(ie[k])} (expected '
                             f'{bool(r_ie[k])}), interpolate={bool(ii[k])} '
                             f'(expected {bool(r_ii[k])})'})
    if not (np.array_equal(F.freq_extrapolate, req[r_ie]) and
            np.array_equal(F.freq_interpolate, req[r_ii])):
        viol.append({'cls': 'group-frequencies-wrong',
                     'what': f'{what}: freq_extrapolate / freq_interpolate '
                             'are not the required frequencies below / in '
                             'the band'})
    fcoarse = np.asarray(F.freq_coarse)
    fc = np.asarray(F.freq_compute)
    compared += 3
    if not np.array_equal(fcoarse, coarse):
        viol.append({'cls': 'coarse-frequencies-wrong',
                     'what': f'{what}: freq_coarse has {fcoarse.size} '
                             f'entries, expected {coarse.size}'})
    if fc.size and not (fc.min() >= fmin and fc.max() <= fmax):
        viol.append({'cls': 'computed-frequency-outside-band',
                     'what': f'{what}: computed {fc.min()!r}..{fc.max()!r}'})
    r_fc = coarse[(coarse >= fmin) & (coarse <= fmax)]
    if not np.array_equal(fc, r_fc):
        viol.append({'cls': 'computed-frequencies-not-coarse-in-band',
                     'what': f'{what}: freq_compute has {fc.size} entries; '
                             f'{r_fc.size} coarse frequencies lie in the '
                             'band', 'observed': fc, 'expected': r_fc})
    if not np.array_equal(np.asarray(F.freq_coarse)[F.ifreq_compute], fc):
        viol.append({'cls': 'computed-frequencies-not-coarse-in-band',
                     'what': f'{what}: ifreq_compute inconsistent'})
    same_grid = c['coarse'] in ('none', 'x1')
    nc = int(r_fc.size)
    mode = 'taken' if same_grid else 'spline'
    groups = (bool(r_ie.any()), bool(r_ii.any()), bool(r_iz.any()))
    count = {}
    if viol:
        return {'viol': viol, 'compared': compared, 'nontrivial': True,
                'outcome': ('bookkeeping-wrong',)}

    # ----------------------------------------------------- nothing to feed
    if nc == 0:
        try:
            F.interpolate(np.zeros(0, dtype=complex))
            res = 'empty-accepted'
        except (IndexError, ValueError):
            res = 'empty-rejected'
        return {'viol': viol, 'compared': compared, 'nontrivial': False,
                'outcome': ('no-computed-frequency', res, groups),
                'count': {'no_computed_frequency': 1}}

    # ------------------------------------------------------------- spectra
    nfew = 0
    nspec = 0
    ntrans = 0
    coincide = np.isin(req, r_fc) & r_ii        # required == computed
    where_c = {float(f): k for k, f in enumerate(r_fc)}
    src_idx = np.array([where_c[float(f)] for f in req[coincide]], dtype=int)
    spikes = spike_indices(nc, tier)
    for name, fd in spectra(r_fc, spikes):
        nspec += 1
        scale = max(np.abs(fd).max(), 1e-300)
        try:
            with warnings.catch_warnings():
                warnings.simplefilter('ignore')
                out = np.asarray(F.interpolate(fd.copy()))
        except Exception as exc:      # noqa: BLE001
            if not same_grid and nc < 4 and isinstance(exc, ValueError):
                nfew += 1             # a cubic spline needs four points
                continue
            if c['coarse'] == 'same-size':
                viol.append({
                    'cls': SAME_SIZE,
                    'what': f'{what}: input_freq has as many entries as '
                            'freq_required (but other frequencies); '
                            f'interpolate() fails: {type(exc).__name__}: '
                            f'{exc}'})
                break
            viol.append({'cls': 'interpolate-raises',
                         'what': f'{what}: spectrum {name}: '
                                 f'{type(exc).__name__}: {exc}'})
            break
        if c['coarse'] == 'same-size':
            # by the documented rule these data have to be interpolated (or,
            # with fewer than four of them, refused)
            bad = nc < 4
            if not bad:
                ref = ref_fill(req, fmin, fmax, r_fc, fd, False)
                bad = not (out.shape == ref.shape and np.abs(
                    out - ref)[r_ii].max() <= TOL_SPLINE*max(
                        scale, np.abs(ref[r_ii]).max()))
            if bad:
                k = int(np.argmax(np.abs(out - ref)[r_ii])) if nc >= 4 else 0
                viol.append({
                    'cls': SAME_SIZE,
                    'what': f'{what}: input_freq has as many entries as '
                            'freq_required (but other frequencies): the '
                            f'{nc} data are taken as if they were at the '
                            f'required frequencies (spectrum {name}: at '
                            f'f={req[r_ii][k]!r} filled {out[r_ii][k]!r}'
                            + (f', log-cubic spline {ref[r_ii][k]!r})'
                               if nc >= 4 else ')')})
                break
        compared += 1
        if out.shape != req.shape or out.dtype != np.complex128:
            viol.append({'cls': 'filled-spectrum-wrong-shape',
                         'what': f'{what}: {out.shape} {out.dtype}'})
            break
        ref = ref_fill(req, fmin, fmax, r_fc, fd, same_grid)
        # above fmax: exactly zero
        if r_iz.any() and np.any(out[r_iz] != 0):
            viol.append({'cls': 'nonzero-above-fmax',
                         'what': f'{what}: spectrum {name}: '
                                 f'{int((out[r_iz] != 0).sum())} non-zero '
                                 'values above fmax'})
        # pass-through where required == computed
        if coincide.any():
            d = np.abs(out[coincide] - fd[src_idx])
            tol = 0.0 if same_grid else TOL_PASS*scale
            if not d.max() <= tol:
                k = int(np.argmax(d))
                fk = req[coincide][k]
                viol.append({
                    'cls': 'computed-data-not-passed-through',
                    'what': f'{what}: spectrum {name}: at f={fk!r} (computed '
                            f'and required) filled {out[coincide][k]!r}, '
                            f'supplied {fd[src_idx][k]!r}',
                    'observed': out[coincide][k],
                    'expected': fd[src_idx][k]})
        # in band: documented interpolation
        if r_ii.any():
            d = np.abs(out[r_ii] - ref[r_ii])
            big = max(scale, np.abs(ref[r_ii]).max())
            tol = 0.0 if same_grid else TOL_SPLINE*big
            if not d.max() <= tol:
                k = int(np.argmax(d))
                cls_ = 'in-band-fill-differs-from-log-cubic-spline'
                if same_grid:
                    cls_ = 'in-band-data-not-taken-unchanged'
                viol.append({
                    'cls': cls_,
                    'what': f'{what}: spectrum {name}: at required '
                            f'f={req[r_ii][k]!r} filled {out[r_ii][k]!r}, '
                            f'reference {ref[r_ii][k]!r}',
                    'observed': out[r_ii][k], 'expected': ref[r_ii][k]})
        # below fmin
        if r_ie.any():
            lo = out[r_ie]
            fe = req[r_ie]
            re0, im0 = fd[0].real, fd[0].imag
            if not np.abs(lo.real - re0).max() <= 1e-12*max(abs(re0), scale):
                k = int(np.argmax(np.abs(lo.real - re0)))
                viol.append({
                    'cls': 'extrapolated-real-part-leaves-lowest-computed',
                    'what': f'{what}: spectrum {name}: real part at '
                            f'f={fe[k]!r} is {lo.real[k]!r}; lowest computed '
                            f'value {re0!r}', 'observed': lo.real[k],
                    'expected': re0})
            mag = np.abs(lo.imag)
            tiny = 1e-12*scale
            mono = np.all(np.diff(mag) >= -tiny)
            sgn = np.all(lo.imag*np.sign(im0) >= -tiny) if im0 != 0 else \
                np.all(mag <= tiny)
            tt = fe/r_fc[0]
            small = tt <= 0.01
            tozero = np.all(mag[small] <= 4*tt[small]*abs(im0) + tiny)
            if not (mono and sgn and mag.max() <= abs(im0) + tiny
                    and tozero):
                viol.append({
                    'cls': 'extrapolated-imaginary-part-not-shrinking-to-'
                           'zero',
                    'what': f'{what}: spectrum {name}: imaginary part below '
                            f'fmin: first {lo.imag[0]!r} at f={fe[0]!r}, '
                            f'last {lo.imag[-1]!r}; lowest computed '
                            f'{im0!r} (monotone={bool(mono)}, sign='
                            f'{bool(sgn)}, to-zero={bool(tozero)})'})
            d = np.abs(lo - ref[r_ie])
            if not d.max() <= 1e-12*scale:
                k = int(np.argmax(d))
                viol.append({
                    'cls': 'extrapolation-differs-from-documented-pchip',
                    'what': f'{what}: spectrum {name}: at f={fe[k]!r} '
                            f'filled {lo[k]!r}, reference {ref[r_ie][k]!r}',
                    'observed': lo[k], 'expected': ref[r_ie][k]})
        # time domain
        if name.startswith('spike') and name not in (
                f'spike-{spikes[0]}', f'spike-{spikes[len(spikes)//2]}',
                f'spike-{spikes[-1]}'):
            continue
        ntrans += 1
        off = 100.0
        with warnings.catch_warnings():
            warnings.simplefilter('ignore')
            td = F.freq2time(fd.copy(), off)
        td_same = tem_ref(out, off, req, t, sig, ft_chk, targ)
        td_ref = tem_ref(ref, off, req, t, sig, ft_chk, targ)
        compared += 2
        if not (np.shape(td) == np.shape(td_same) and
                np.array_equal(td, td_same)):
            viol.append({
                'cls': 'freq2time-differs-from-reference-transform',
                'what': f'{what}: spectrum {name}: freq2time != '
                        'empymod.model.tem(interpolate(fdata)) with freshly '
                        'checked arguments', 'observed': td,
                'expected': td_same})
        else:
            big = max(np.abs(td_ref).max(), 1e-300)
            if not (np.all(np.isfinite(td) == np.isfinite(td_ref)) and
                    np.nanmax(np.abs(td - td_ref), initial=0.0)
                    <= 1e-6*big + 1e-9*scale):
                viol.append({
                    'cls': 'time-domain-result-differs-from-reference-fill',
                    'what': f'{what}: spectrum {name}: max diff '
                            f'{np.nanmax(np.abs(td - td_ref)):.3e} vs '
                            f'max {big:.3e}', 'observed': td,
                    'expected': td_ref})
        if len(viol) > 6:
            break
    if nfew:
        count['too_few_computed_for_cubic_spline'] = 1
    count['spectra'] = nspec
    count['transforms'] = ntrans
    nco = int(coincide.sum())
    return {'viol': viol, 'compared': compared, 'transitions': nspec,
            'nontrivial': nspec > nfew, 'count': count,
            'outcome': (mode, groups, min(nc, 5), nco > 0,
                        'few' if nfew else 'ok')}


# ------------------------------------------------- exclusivity of the options
def case_exclusive(c):
    """input_freq and every_x_freq together: warns, exactly one survives."""
    t = TIMES[c['time']]()
    ft, ftarg = FTS[c['ft']]
    req, _, _ = ref_required(t, 0, ft, ftarg)
    fmin, fmax = band(req, 'cut')
    inp = np.geomspace(fmin, fmax, 13)
    how = c['how']
    viol = []
    import emg3d

    def make(**kw):
        return emg3d.time.Fourier(t, fmin, fmax, ft=ft,
                                  ftarg=copy.deepcopy(ftarg), verb=0, **kw)

    with warnings.catch_warnings(record=True) as rec:
        warnings.simplefilter('always')
        warnings.simplefilter('ignore', DeprecationWarning)
        if how == 'ctor-both':
            F = make(input_freq=inp, every_x_freq=c['x'])
            exp = ('input', True)
        elif how == 'set-input-after-every':
            F = make(every_x_freq=c['x'])
            F.input_freq = inp
            exp = ('input', True)
        elif how == 'set-every-after-input':
            F = make(input_freq=inp)
            F.every_x_freq = c['x']
            exp = ('every', True)
        elif how == 'ctor-input-only':
            F = make(input_freq=inp)
            exp = ('input', False)
        elif how == 'ctor-every-only':
            F = make(every_x_freq=c['x'])
            exp = ('every', False)
        elif how == 'set-every-none':
            F = make(input_freq=inp)
            F.every_x_freq = None
            exp = ('input', False)
        elif how == 'set-input-none':
            F = make(every_x_freq=c['x'])
            F.input_freq = None
            exp = ('every', False)
        else:
            raise ValueError(how)
    warned = [w for w in rec if issubclass(w.category, UserWarning)
              and 'mutually' in str(w.message)]
    kept_inp = F.input_freq is not None
    kept_evr = F.every_x_freq is not None
    what = f"{how} x={c['x']} time={c['time']} ft={c['ft']}"
    if kept_inp == kept_evr:
        viol.append({'cls': 'coarse-options-not-exclusive',
                     'what': f'{what}: input_freq kept={kept_inp}, '
                             f'every_x_freq kept={kept_evr}'})
    elif (exp[0] == 'input') != kept_inp:
        viol.append({'cls': 'coarse-options-wrong-one-kept',
                     'what': f'{what}: expected {exp[0]} to survive'})
    if bool(warned) != exp[1]:
        viol.append({'cls': 'coarse-options-warning-wrong',
                     'what': f'{what}: {len(warned)} warnings, expected '
                             f'{"one" if exp[1] else "none"}'})
    # the surviving option defines the coarse frequencies
    ref = inp if exp[0] == 'input' else req[::c['x']]
    if not np.array_equal(F.freq_coarse, ref):
        viol.append({'cls': 'coarse-frequencies-wrong',
                     'what': f'{what}: freq_coarse does not follow the '
                             'surviving option'})
    return {'viol': viol, 'compared': 3, 'nontrivial': True,
            'outcome': (how, kept_inp, kept_evr, len(warned))}


# ------------------------------------------------------------------ setters
OPS = (('fmin', 'lo'), ('fmin', 'on'), ('fmax', 'hi'), ('fmax', 'on'),
       ('time', 'lin'), ('time', 'single'), ('ft', 'k81-lag'),
       ('ft', 'fftlog-5'), ('every', 2), ('every', None), ('input', 'in'),
       ('input', None), ('signal', 1), ('signal', -1))


def apply_semantic(cfg, op, req0):
    """Settings after the operation (what a fresh object would be given)."""
    k, v = op
    cfg = dict(cfg)
    i1, i2 = req0.size//4, (3*req0.size)//4
    if k == 'fmin':
        cfg['fmin'] = float(req0[i1]/3.3) if v == 'lo' else float(req0[i1])
    elif k == 'fmax':
        cfg['fmax'] = float(req0[i2]*3.3) if v == 'hi' else float(req0[i2])
    elif k == 'time':
        cfg['time'] = v
    elif k == 'ft':
        cfg['ft'] = v
    elif k == 'every':
        cfg['every'] = v
        if v is not None:
            cfg['input'] = None
    elif k == 'input':
        cfg['input'] = v
        if v is not None:
            cfg['every'] = None
    elif k == 'signal':
        cfg['sig'] = v
    return cfg


def input_array(cfg0):
    return np.geomspace(cfg0['fmin'], cfg0['fmax'], 13)


def apply_real(F, op, cfg, inp):
    k, v = op
    if k == 'fmin':
        F.fmin = cfg['fmin']
    elif k == 'fmax':
        F.fmax = cfg['fmax']
    elif k == 'time':
        F.time = TIMES[v]()
    elif k == 'ft':
        ft, ftarg = FTS[v]
        F.fourier_arguments(ft, copy.deepcopy(ftarg))
    elif k == 'every':
        F.every_x_freq = v
    elif k == 'input':
        F.input_freq = None if v is None else inp
    elif k == 'signal':
        F.signal = v


def case_setters(c):
    base = c['base']
    ops = [tuple(o) for o in c['ops']]
    t0 = TIMES[base['time']]()
    ft0, ftarg0 = FTS[base['ft']]
    req0, _, _ = ref_required(t0, base['sig'], ft0, ftarg0)
    cfg0 = dict(base)
    cfg0['fmin'], cfg0['fmax'] = band(req0, 'cut')
    cfg0['every'], cfg0['input'] = None, None
    inp = input_array(cfg0)
    viol = []
    with warnings.catch_warnings():
        warnings.simplefilter('ignore')
        F = new_fourier(t0, cfg0['fmin'], cfg0['fmax'], base['sig'], ft0,
                        ftarg0, {})
        cfg = cfg0
        kept = []

        def use():
            # the object is USED between the setter calls (filled spectrum
            # and transform), and the caller keeps what was returned
            if F.freq_compute.size >= 4:
                fd_ = spectra(np.asarray(F.freq_compute), [])[1][1]
                r_ = F.interpolate(fd_.copy())
                kept.append((r_, np.array(r_, copy=True)))
                F.freq2time(fd_.copy(), 50.0)
        use()
        for op in ops:
            cfg = apply_semantic(cfg, op, req0)
            apply_real(F, op, cfg, inp)
            use()
        kw = {}
        if cfg['every'] is not None:
            kw['every_x_freq'] = cfg['every']
        if cfg['input'] is not None:
            kw['input_freq'] = inp
        ft1, ftarg1 = FTS[cfg['ft']]
        G = new_fourier(TIMES[cfg['time']](), cfg['fmin'], cfg['fmax'],
                        cfg['sig'], ft1, ftarg1, kw)
    what = f"base {base} then {ops}"
    has_signal = any(o[0] == 'signal' for o in ops)
    names = ('freq_required', 'freq_coarse', 'freq_compute',
             'freq_extrapolate', 'freq_interpolate', 'ifreq_compute',
             'ifreq_extrapolate', 'ifreq_interpolate')
    compared = len(names) + 2
    for n in names:
        if not np.array_equal(getattr(F, n), getattr(G, n)):
            viol.append({
                'cls': ('signal-setter-leaves-stale-transform-arguments'
                        if has_signal else
                        'setter-history-changes-frequency-bookkeeping'),
                'what': f'{what}: {n} differs from a fresh Fourier with the '
                        'same settings'})
            break
    for k_, (r_, rc_) in enumerate(kept):
        if not np.array_equal(r_, rc_, equal_nan=True):
            viol.append({'cls': 'filled-spectrum-overwritten-by-later-call',
                         'what': f'{what}: the array returned by interpolate '
                                 f'call {k_} changed during later calls'})
            break
    same = True
    if not viol and G.freq_compute.size >= 4:
        fd = spectra(np.asarray(G.freq_compute), [])[1][1]
        with warnings.catch_warnings():
            warnings.simplefilter('ignore')
            a, b = F.interpolate(fd.copy()), G.interpolate(fd.copy())
            ta, tb = F.freq2time(fd.copy(), 50.0), G.freq2time(fd.copy(), 50.)
        if not np.array_equal(a, b):
            viol.append({'cls': 'setter-history-changes-filled-spectrum',
                         'what': f'{what}: interpolate differs from a fresh '
                                 'Fourier with the same settings'})
        # equal to rounding (1e-12 of the largest value): live and fresh
        # objects hold the same frequencies, filled spectrum and transform
        # arguments, but the transform of the reference modeller is not
        # reproducible to the last bit between two filter instances
        sc = max(float(np.abs(tb).max()), 1e-300)
        if ta.shape != tb.shape or not np.abs(ta - tb).max() <= 1e-12*sc:
            same = False
            live = {k: v for k, v in F.ftarg.items() if k in ('kind', 'mu')}
            fresh = {k: v for k, v in G.ftarg.items() if k in ('kind', 'mu')}
            viol.append({
                'cls': ('signal-setter-leaves-stale-transform-arguments'
                        if has_signal else
                        'setter-history-changes-time-domain-result'),
                'what': f'{what}: freq2time {np.ravel(ta)[:3]} differs from '
                        f'a fresh Fourier with the same settings '
                        f'{np.ravel(tb)[:3]} (live ftarg: {live}, fresh: '
                        f'{fresh})',
                'observed': ta, 'expected': tb})
    return {'viol': viol, 'compared': compared, 'transitions': len(ops),
            'nontrivial': True,
            'outcome': (len(ops), same, int(G.freq_compute.size > 0))}


# -------------------------------------------------------------- enumeration
def cases(tier):
    times = ('log5', 'lin', 'single') if tier == 'quick' else tuple(TIMES)
    out = []
    for tm, ft, sig, bd, co in itertools.product(times, FTS, SIGNALS, BANDS,
                                                 COARSE):
        out.append({'time': tm, 'ft': ft, 'sig': sig, 'band': bd,
                    'coarse': co, 'tier': tier})
    return out


def exclusive_cases(tier):
    out = []
    hows = ('ctor-both', 'set-input-after-every', 'set-every-after-input',
            'ctor-input-only', 'ctor-every-only', 'set-every-none',
            'set-input-none')
    for tm in ('log5', 'single'):
        for ft in ('k201-lag', 'fftlog'):
            for how in hows:
                for x in (1, 2, 5):
                    out.append({'time': tm, 'ft': ft, 'how': how, 'x': x})
    return out


def setter_cases(tier):
    bases = [{'time': 'log5', 'ft': 'k201-lag', 'sig': 0},
             {'time': 'log20', 'ft': 'fftlog', 'sig': 1}]
    if tier != 'quick':
        bases += [{'time': 'lin', 'ft': 'k81-spl', 'sig': -1},
                  {'time': 'single', 'ft': 'fftlog-dec', 'sig': 0}]
    depth = 2 if tier == 'quick' else 3
    out = []
    for d in range(1, depth + 1):
        for b in bases:
            for ops in itertools.product(OPS, repeat=d):
                out.append({'base': b, 'ops': [list(o) for o in ops]})
    return out


# ----------------------- several instances created with the SAME ftarg dict
FN_SHARED = 'mc.checks.c20_time:case_shared'


def case_shared(c):
    """Two Fourier objects are created with one and the same ftarg dict
    object (and time array object).  Each must behave like an object created
    with its own copy; the caller's dict stays as it was."""
    import emg3d
    ft, ftarg = FTS[c['ft']]
    user = copy.deepcopy(ftarg)
    keep = copy.deepcopy(user)
    specs = [(c['time1'], c['sig1']), (c['time2'], c['sig2'])]
    viol = []
    objs, refs = [], []
    with warnings.catch_warnings():
        warnings.simplefilter('ignore')
        for tname, sig in specs:
            t = TIMES[tname]()
            req, _, _ = ref_required(t, sig, ft, ftarg)
            fmin, fmax = band(req, 'cut')
            objs.append(emg3d.time.Fourier(t, fmin, fmax, signal=sig, ft=ft,
                                           ftarg=user, verb=0))
            refs.append((t, fmin, fmax, sig))
        for k, (F, (t, fmin, fmax, sig)) in enumerate(zip(objs, refs)):
            G = new_fourier(t, fmin, fmax, sig, ft, ftarg, {})
            what = (f"{c['ft']}: instance {k} of two sharing one ftarg dict "
                    f"(times {c['time1']}/{c['time2']}, signals "
                    f"{c['sig1']}/{c['sig2']})")
            if not np.array_equal(F.freq_required, G.freq_required):
                viol.append({'cls': 'shared-ftarg-changes-frequencies',
                             'what': what})
                continue
            if G.freq_compute.size < 4:
                continue
            fd = spectra(np.asarray(G.freq_compute), [])[1][1]
            ta, tb = F.freq2time(fd.copy(), 50.0), G.freq2time(fd.copy(), 50.)
            sc = max(float(np.abs(tb).max()), 1e-300)
            if ta.shape != tb.shape or not np.abs(ta - tb).max() <= 1e-12*sc:
                viol.append({
                    'cls': 'instances-sharing-an-ftarg-dict-interfere',
                    'what': what + ': freq2time differs from an object with '
                            'its own ftarg by '
                            f'{np.abs(ta - tb).max()/sc:.2e}'})
    if set(user) != set(keep) or any(
            not np.array_equal(user[k_], keep[k_]) for k_ in keep):
        viol.append({'cls': 'user-ftarg-dict-modified',
                     'what': f"{c['ft']}: the ftarg dict handed to Fourier "
                             f"changed: {sorted(keep)} -> {sorted(user)}"})
    return {'viol': viol, 'compared': 4, 'transitions': 2,
            'nontrivial': True, 'outcome': (c['ft'], bool(viol))}


def shared_cases(tier):
    out = []
    for ft in FTS:
        for t1, t2 in (('log5', 'log20'), ('log20', 'lin'), ('lin', 'lin')):
            for s1 in SIGNALS:
                for s2 in SIGNALS:
                    out.append({'ft': ft, 'time1': t1, 'time2': t2,
                                'sig1': s1, 'sig2': s2})
    return out


def prepare(ctx):
    import emg3d  # noqa: F401
    import empymod  # noqa: F401
    import scipy.interpolate  # noqa: F401


def run(ctx):
    prepare(ctx)
    ctx.assume(
        "time vectors, transforms, bands and coarse options from the "
        "alphabets of DESIGN 3/C20; bands are placed relative to the "
        "required frequencies of each configuration (index n/4 and 3n/4)",
        "spectra: three analytic diffusive responses, a real constant, a "
        "sign-changing spectrum and unit spikes (1+0.5j) at the computed "
        "frequencies (quick: at most ~16 spikes per configuration; "
        "thorough: every spike)",
        "a band without computed frequency, and fewer than four computed "
        "frequencies for the cubic spline, make emg3d raise; these are "
        "counted (no_computed_frequency, too_few_computed_for_cubic_spline),"
        " not flagged",
        "in-band reference = not-a-knot cubic spline in log(f) (1e-9 of the "
        "largest datum); pass-through 0 (taken) / 1e-12 (spline); "
        "extrapolation = documented PCHIP rule (1e-12); freq2time "
        "bit-identical to empymod.model.tem on the filled spectrum")
    q = ctx.quick
    if ctx.wants('fill'):
        ctx.explore('fill', FN, cases(ctx.tier), engine='E1',
                    rule='full product time x transform x signal x band x '
                         'coarse option; per configuration 5 spectra + unit '
                         'spikes; non-trivial = at least one spectrum was '
                         'filled',
                    time_cap=ctx.budget or (320 if q else 1600))
    if ctx.wants('exclusive'):
        ctx.explore('exclusive', FN_EXCL, exclusive_cases(ctx.tier),
                    engine='E1',
                    rule='7 ways of setting input_freq / every_x_freq x '
                         'every_x in {1,2,5} x 2 times x 2 transforms',
                    time_cap=ctx.budget or 30)
    if ctx.wants('shared'):
        ctx.explore('shared-arguments', FN_SHARED, shared_cases(ctx.tier),
                    engine='E2',
                    rule='9 transforms x 3 time-vector pairs x 3x3 signals: '
                         'two Fourier objects created with ONE ftarg dict '
                         'object; each equals an object with its own '
                         'arguments, the dict stays unchanged',
                    time_cap=ctx.budget or (160 if q else 600))
    if ctx.wants('setters'):
        ctx.explore('setters', FN_SET, setter_cases(ctx.tier), engine='E2',
                    rule='all operation sequences (14 setter operations) up '
                         'to length 2 (quick) / 3 (thorough) on a live '
                         'Fourier, compared with a fresh object',
                    time_cap=ctx.budget or (160 if q else 600))
