"""C13 - misfit and data weights follow the noise model and stay untouched.

E1 ``formula``: survey shapes {1,2,3}^3 x noise forms (None, scalar,
per-source, per-receiver, per-frequency, full) for noise floor and relative
error x explicit standard deviation {unset, set, set then None} x NaN masks.
The real ``Survey.standard_deviation`` and the real ``Simulation.misfit`` are
compared with ``mc.refmodel.noise``; the misfit is recomputed on surveys whose
sources / receivers / frequencies are permuted.

E2 ``histories``: breadth-first over all operation sequences (add_noise
variants, selections, copy, dict and file round trips, explicit assignments,
reads) on a real Survey; after every step the current survey *and every
object it was derived from* must report the last explicitly assigned noise
settings; selections must be the np.ix_ sub-cube.
"""
import itertools
import os
import tempfile
import warnings
import zlib

import numpy as np

from .. import zoo
from ..refmodel import noise as ref

FN_E1 = 'mc.checks.c13_noise:formula'
FN_E2 = 'mc.checks.c13_noise:history'

FORMS = ('none', 'scalar', 'src', 'rec', 'freq', 'full')
RTOL = 1e-12
# a noise setting given as an array with exactly one element (e.g. the
# per-source form for a survey with one source) makes emg3d call float() on a
# non-0-d array, which NumPy >= 2.? refuses
SIZE_ONE_CLS = 'size-one-array-noise-setting-raises-TypeError'


# --------------------------------------------------------------------- seam
class seeded_rng:
    """numpy.random.default_rng() *without arguments* (as emg3d.surveys calls
    it) returns a generator seeded by (VERIF_SEED, tag, call number)."""

    def __init__(self, *tag):
        self.h = zlib.crc32(repr(tag).encode())
        self.calls = 0

    def __enter__(self):
        self.orig = np.random.default_rng

        def fake(*a, **k):
            if a or k:
                return self.orig(*a, **k)
            self.calls += 1
            return self.orig([zoo.SEED, self.h, self.calls])
        np.random.default_rng = fake
        return self

    def __exit__(self, *exc):
        np.random.default_rng = self.orig


def _quiet():
    warnings.simplefilter('ignore')


def kind_of(v):
    if v is None:
        return 'none'
    v = np.asarray(v)
    if v.size == 1:
        return 'scalar'
    return 'array'


def reported(x):
    """Value of a noise setting as reported by the survey (None / array)."""
    return None if x is None else np.asarray(x, dtype=float)


def equal_setting(rep, exp, shape):
    if rep is None or exp is None:
        return rep is None and exp is None
    try:
        rep = np.broadcast_to(np.asarray(rep, float), shape)
    except ValueError:
        return False
    return ref.same(rep, np.broadcast_to(exp, shape))


# ======================================================================= E1
def form_value(form, shape, which):
    """Broadcastable value of a noise setting (different in every entry)."""
    ns, nr, nq = shape
    if form == 'none':
        return None
    base, ds, dr, dq = ((0.31, 0.17, 0.29, 0.11) if which == 'nf' else
                        (0.06, 0.05, 0.02, 0.035))
    if form == 'scalar':
        return base
    s = np.arange(ns)[:, None, None]
    r = np.arange(nr)[None, :, None]
    q = np.arange(nq)[None, None, :]
    if form == 'src':
        return base + ds*s
    if form == 'rec':
        return base + dr*r
    if form == 'freq':
        return base + dq*q
    return base + ds*s + dr*r + dq*q + 0.013*s*r*q


def e1_values(c):
    shape = tuple(c['shape'])
    ns, nr, nq = shape
    s = np.arange(ns)[:, None, None]
    r = np.arange(nr)[None, :, None]
    q = np.arange(nq)[None, None, :]
    g = zoo.rng('c13', 'e1', shape)
    amp = (1.0 + 0.7*s + 1.9*r + 0.31*q)*g.uniform(0.8, 1.25, shape)
    pha = 0.3 + 1.1*s + 0.5*r + 2.3*q + g.uniform(-0.2, 0.2, shape)
    dobs = amp*np.exp(1j*pha)
    dsyn = dobs*(1.1 + 0.05j) + (0.2 - 0.1j)*(1 + s - 0.5*r + 0.25*q)
    if c['nan'] == 'one':
        dobs[ns-1, 0, nq-1] = np.nan + 1j*np.nan
    elif c['nan'] == 'row':
        dobs[0, nr-1, :] = np.nan + 1j*np.nan
    sd = 0.4 + 0.3*s + 0.13*r + 0.21*q + 0.05*s*r + np.zeros(shape)
    return {'shape': shape, 'dobs': dobs, 'dsyn': dsyn,
            'nf': form_value(c['nf'], shape, 'nf'),
            're': form_value(c['re'], shape, 're'), 'sd': sd}


def _geometry(ns, nr, nq):
    import emg3d
    src = {f'S{i}': emg3d.TxElectricDipole(
        (120. + 60*i, 110. + 30*i, -90., 20.*i, 10.*i), strength=1+i)
        for i in range(ns)}
    rcl = [lambda: emg3d.RxElectricPoint((250., 130., -120., 0, 0)),
           lambda: emg3d.RxMagneticPoint((40., 10., 5., 30, 10),
                                         relative=True),
           lambda: emg3d.RxElectricPoint((150., 270., -170., 90, 0))]
    rec = {f'R{j}': rcl[j]() for j in range(nr)}
    freq = {f'F{k}': (1.0, 2.5, 0.4)[k] for k in range(nq)}
    return src, rec, freq


def _permuted(a, perm):
    """Permute a broadcastable setting along the axes it really has."""
    if a is None or np.ndim(a) == 0:
        return a
    idx = [list(p) if a.shape[ax] > 1 else [0] for ax, p in enumerate(perm)]
    return a[np.ix_(*idx)]


def e1_survey(v, perm, sdmode, with_syn=True, scalarize=False):
    import emg3d
    ns, nr, nq = v['shape']
    src, rec, freq = _geometry(ns, nr, nq)
    ks, kr, kq = list(src), list(rec), list(freq)
    src = {ks[i]: src[ks[i]] for i in perm[0]}
    rec = {kr[i]: rec[kr[i]] for i in perm[1]}
    freq = {kq[i]: freq[kq[i]] for i in perm[2]}
    data = {'observed': _permuted(v['dobs'], perm).copy()}
    if with_syn:
        data['synthetic'] = _permuted(v['dsyn'], perm).copy()
    nf, re = _permuted(v['nf'], perm), _permuted(v['re'], perm)
    if scalarize:       # size-one arrays as floats (see SIZE_ONE_CLS)
        nf, re = (float(np.ravel(x)[0]) if np.size(x) == 1 and x is not None
                  else x for x in (nf, re))
    survey = emg3d.Survey(src, rec, freq, data=data,
                          noise_floor=None if nf is None else np.copy(nf),
                          relative_error=None if re is None else np.copy(re))
    if sdmode in ('set', 'setnone'):
        survey.standard_deviation = _permuted(v['sd'], perm).copy()
    if sdmode == 'setnone':
        survey.standard_deviation = None
    return survey


_MODEL = {}


def tiny_model():
    import emg3d
    if 'm' not in _MODEL:
        grid = emg3d.TensorMesh([np.ones(4)*100., np.ones(4)*100.,
                                 np.ones(4)*100.], origin=(0., 0., -300.))
        _MODEL['m'] = emg3d.Model(grid, 1.0, mapping='Resistivity')
    return _MODEL['m']


def real_misfit(survey, compute=False, layered=False):
    """The real Simulation.misfit of a survey.  Cheapest faithful route: the
    survey already carries data.synthetic and the Simulation is told that the
    fields are computed (``_computed = True``, what ``compute()`` sets), so
    ``misfit`` runs its own code on data.synthetic / data.observed /
    survey.standard_deviation.  With compute=True the fields are really
    computed on a 4x4x4 grid."""
    import emg3d
    sim = emg3d.Simulation(survey, tiny_model(), gridding='same',
                           max_workers=1, verb=-1, tqdm_opts=False,
                           receiver_interpolation='linear',
                           solver_opts={'maxit': 1, 'verb': 0},
                           **({'layered': True, 'layered_opts': {
                               'method': 'midpoint'}} if layered else {}))
    if not compute:
        sim._computed = True
    with warnings.catch_warnings():
        _quiet()
        m = sim.misfit
    return sim, float(np.asarray(m))


def perms_of(shape, mode):
    ident = tuple(tuple(range(n)) for n in shape)
    if mode == 'none':
        return []
    if mode == 'product':
        out = list(itertools.product(*(itertools.permutations(range(n))
                                       for n in shape)))
        return [p for p in out if p != ident]
    out = []
    for ax in range(3):
        for p in itertools.permutations(range(shape[ax])):
            if p != ident[ax]:
                q = list(ident)
                q[ax] = p
                out.append(tuple(q))
    rev = tuple(tuple(reversed(range(n))) for n in shape)
    if rev != ident and rev not in out:
        out.append(rev)
    return out


def formula(c):
    v = e1_values(c)
    shape = v['shape']
    sdmode = c['sd']
    layered = c.get('route') == 'layered'
    compute = c.get('route') in ('compute', 'layered')
    ident = tuple(tuple(range(n)) for n in shape)
    viol = []
    compared = 0

    scalarize = False
    try:
        survey = e1_survey(v, ident, sdmode, with_syn=not compute)
    except TypeError as e:
        size1 = [n for n in ('nf', 're') if np.ndim(v[n]) > 0
                 and np.size(v[n]) == 1]
        if not size1:
            raise
        viol.append({'cls': SIZE_ONE_CLS,
                     'what': f'Survey(shape {shape}) with a broadcastable '
                             f'array of one element for {size1} raises '
                             f'TypeError: {e}',
                     'observed': repr(e)})
        scalarize = True
        survey = e1_survey(v, ident, sdmode, with_syn=not compute,
                           scalarize=True)
    exp_nf = ref.setting(v['nf'], shape)
    exp_re = ref.setting(v['re'], shape)
    exp_sd = v['sd'] if sdmode == 'set' else None
    fin = np.isfinite(v['dobs'])

    def check_settings(when):
        nonlocal compared
        for name, exp in (('noise_floor', exp_nf), ('relative_error', exp_re)):
            compared += 1
            if not equal_setting(reported(getattr(survey, name)), exp, shape):
                viol.append({'cls': f'{name}-not-as-assigned',
                             'what': f'{name} {when}',
                             'observed': getattr(survey, name),
                             'expected': exp})

    check_settings('after construction')
    std_ref = ref.std_effective(exp_nf, exp_re, exp_sd, v['dobs'])
    std = survey.standard_deviation
    compared += 1
    if std_ref is None:
        if std is not None:
            viol.append({'cls': 'standard_deviation-without-noise-settings',
                         'what': 'std reported although nothing is defined',
                         'observed': std.data})
    elif std is None:
        viol.append({'cls': 'standard_deviation-missing',
                     'what': 'std is None although noise settings exist'})
    else:
        s_ = np.asarray(std.data, dtype=float)
        if s_.shape != shape or not ref.same(s_[fin], std_ref[fin], 1e-14):
            viol.append({'cls': 'standard_deviation-differs-from-noise-model',
                         'what': f'nf={c["nf"]} re={c["re"]} sd={sdmode}: std '
                                 '!= sqrt(nf^2+(re|d|)^2) / assigned value',
                         'observed': s_, 'expected': std_ref})

    # misfit through the real Simulation
    if std_ref is None:
        try:
            real_misfit(survey, compute, layered)
            viol.append({'cls': 'misfit-without-standard_deviation',
                         'what': 'misfit returned although no std defined'})
        except ValueError:
            pass                      # documented behaviour
        return {'viol': viol, 'compared': compared, 'nontrivial': False,
                'outcome': ('no-std',), 'count': {'no_std_raises': 1}}

    sim, m = real_misfit(survey, compute, layered)
    dsyn = np.asarray(sim.data.synthetic.data) if compute else v['dsyn']
    # every finite observation needs its response (the layered mode only
    # computes the slots that have data)
    need = fin if layered else np.ones(shape, dtype=bool)
    if compute and not np.isfinite(dsyn)[need].all():
        viol.append({'cls': 'synthetic-not-finite-after-compute',
                     'what': 'compute() left NaN in data.synthetic where '
                             'an observation is finite' + (
                                 ' (layered mode)' if layered else '')})
    m_ref = ref.misfit(dsyn, v['dobs'], std_ref)
    compared += 1
    if not abs(m - m_ref) <= RTOL*abs(m_ref):
        viol.append({'cls': 'misfit-differs-from-noise-model',
                     'what': f'misfit {m!r} vs reference {m_ref!r} '
                             f'(finite data: {int(fin.sum())})',
                     'observed': m, 'expected': m_ref})
    w = np.asarray(sim.data.weights.data, dtype=float)
    compared += 1
    if not ref.same(w[fin], 1.0/std_ref[fin]**2, 1e-13):
        viol.append({'cls': 'weights-differ-from-noise-model',
                     'what': 'data.weights != 1/std^2 on finite data',
                     'observed': w, 'expected': 1.0/std_ref**2})
    check_settings('after reading the misfit')
    if sdmode == 'set':
        compared += 1
        if not ref.same(np.asarray(survey.standard_deviation.data), v['sd']):
            viol.append({'cls': 'standard_deviation-changed-by-misfit',
                         'what': 'explicit std differs after misfit'})

    # invariance under reordering
    nperm = 0
    if not compute:
        for perm in perms_of(shape, c.get('perms', 'axes')):
            sp = e1_survey(v, perm, sdmode, scalarize=scalarize)
            stdp = np.asarray(sp.standard_deviation.data, dtype=float)
            finp = _permuted(fin, perm)
            compared += 2
            nperm += 1
            if not ref.same(stdp[finp], _permuted(s_, perm)[finp], 1e-14):
                viol.append({
                    'cls': 'standard_deviation-not-permutation-equivariant',
                    'what': f'perm {perm}: std of permuted survey is not '
                            'the permuted std'})
            _, mp = real_misfit(sp)
            if not abs(mp - m) <= RTOL*abs(m):
                viol.append({'cls': 'misfit-not-permutation-invariant',
                             'what': f'perm {perm}: misfit {mp!r} vs {m!r}',
                             'observed': mp, 'expected': m})
    src = ('explicit' if sdmode == 'set' else
           f"{kind_of(v['nf'])}/{kind_of(v['re'])}")
    return {'viol': viol, 'compared': compared, 'transitions': 1 + nperm,
            'nontrivial': bool(fin.any()),
            'outcome': (src, int(fin.sum()), bool(compute)),
            'count': {'permuted_surveys': nperm,
                      'real_compute': int(compute)}}


def e1_cases(tier):
    out = []
    shapes = list(itertools.product((1, 2, 3), repeat=3))
    shapes.sort(key=lambda s: (sum(s), s))
    for shape in shapes:
        for nf in FORMS:
            for re in FORMS:
                for sd in ('unset', 'set', 'setnone'):
                    for nan in ('none', 'one', 'row'):
                        out.append({'shape': shape, 'nf': nf, 're': re,
                                    'sd': sd, 'nan': nan, 'route': 'stub',
                                    'perms': (
                                        'none' if tier == 'quick' and
                                        (nan != 'one' or sd == 'setnone')
                                        else
                                        'axes' if tier == 'quick' or
                                        nan == 'none' else 'product')})
    # covering subset with really computed fields (tiny grid)
    comp = []
    for shape in shapes:
        combos = [('rec', 'freq', 'unset', 'one'), ('full', 'src', 'setnone',
                                                    'row')]
        if tier != 'quick':
            combos += [('scalar', 'none', 'unset', 'none'),
                       ('none', 'full', 'unset', 'row'),
                       ('src', 'rec', 'set', 'one')]
        for nf, re, sd, nan in combos:
            comp.append({'shape': shape, 'nf': nf, 're': re, 'sd': sd,
                         'nan': nan, 'route': 'compute'})
        # the same through the layered (1-D) mode, whose responses exist
        # only where observations are finite
        for nan in ('one', 'row', 'none'):
            comp.append({'shape': shape, 'nf': 'rec', 're': 'freq',
                         'sd': 'unset', 'nan': nan, 'route': 'layered'})
    return out, comp


# ======================================================================= E2
SRC_X = {'S0': 0.0, 'S1': 1000.0}
REC = {'R0': ('RxElectricPoint', (500.0, 0.0, 0.0), False),
       'R1': ('RxMagneticPoint', (1800.0, 0.0, 0.0), False),
       'R2': ('RxElectricPoint', (300.0, 0.0, 0.0), True)}
FREQ = {'F0': 1.0, 'F1': 2.5}
MIN_AMP = 0.05
MIN_OFF, MAX_OFF = 400.0, 1500.0

INITS = {
    # name: (nf form, re form, explicit std?, NaN gaps?)
    'A': ('rec', 'scalar', False, True),
    'B': ('scalar', 'freq', False, True),
    'C': ('full', 'src', True, False),
    'D': ('none', 'none', False, True),
}


def idx_of(name):
    return int(name[1:])


def assigned_value(which, kind, names):
    """Value used by an explicit assignment (function of the *names*, so the
    same assignment after a selection is still well defined)."""
    if kind == 'none':
        return None
    s = np.array([idx_of(n) for n in names[0]], float)[:, None, None]
    r = np.array([idx_of(n) for n in names[1]], float)[None, :, None]
    q = np.array([idx_of(n) for n in names[2]], float)[None, None, :]
    if which == 'nf':
        if kind == 'scalar':
            return 0.03
        if kind == 'rec':
            return 0.02*2.0**r
        if kind == 'src':
            return 0.015 + 0.03*s
        return 0.01*(1 + s + 2*r + 0.5*q)
    if which == 're':
        if kind == 'scalar':
            return 0.05
        if kind == 'freq':
            return 0.04 + 0.05*q
        if kind == 'src':
            return 0.03 + 0.04*s
        return 0.02*(1 + 0.5*s + 0.25*r + q)
    return 0.02*(1 + 0.5*s + r + 0.25*q) + 0.0*(s+r+q)     # explicit std


def initial(init):
    import emg3d
    nff, ref_, sdset, gaps = INITS[init]
    names = [list(SRC_X), list(REC), list(FREQ)]
    shape = tuple(len(n) for n in names)
    s = np.arange(shape[0])[:, None, None]
    r = np.arange(shape[1])[None, :, None]
    q = np.arange(shape[2])[None, None, :]
    g = zoo.rng('c13', 'e2', init)
    amp = 10.0**(0.5 - 0.9*s - 0.6*r - 0.45*q)*g.uniform(0.85, 1.15, shape)
    dobs = amp*np.exp(1j*(0.4 + 0.9*s + 1.7*r + 0.6*q))
    if gaps:
        dobs[1, 1, :] = np.nan + 1j*np.nan
        dobs[0, 2, 1] = np.nan + 1j*np.nan
    nf = assigned_value('nf', nff, names)
    re = assigned_value('re', ref_, names)
    sd = assigned_value('sd', 'full', names) if sdset else None
    geom = {'src': {k: (x, 0.0, 0.0) for k, x in SRC_X.items()},
            'rec': {k: (v[1], v[2]) for k, v in REC.items()}}
    model = ref.RefSurvey(names, {'observed': dobs}, nf, re, sd, geom)
    src = {k: emg3d.TxElectricDipole((x, 0.0, 0.0, 0.0, 0.0))
           for k, x in SRC_X.items()}
    rec = {k: getattr(emg3d, v[0])((*v[1], 0.0, 0.0), relative=v[2])
           for k, v in REC.items()}
    real = emg3d.Survey(
        src, rec, dict(FREQ), data={'observed': dobs.copy()},
        noise_floor=None if nf is None else np.array(nf),
        relative_error=None if re is None else np.array(re))
    if sd is not None:
        real.standard_deviation = np.array(np.broadcast_to(sd, shape))
    return model, real


def op_kind(op):
    return op[0]


def applicable(op, names):
    if op[0] != 'select':
        return True
    for ax in range(3):
        sel = op[1 + ax]
        if sel is not None and not set(sel) <= set(names[ax]):
            return False
    return True


class Tracker:
    """Compares real surveys with their reference records."""

    def __init__(self, last_step_only):
        self.viol = []
        self.compared = 0
        self.inherited = 0
        self.report = not last_step_only   # switched on for the last step
        self.halved_now = False

    def add(self, cls, what, observed=None, expected=None):
        if self.report:
            self.viol.append({'cls': cls, 'what': what, 'observed': observed,
                              'expected': expected})
        else:
            self.inherited += 1

    def settings(self, real, model, opk, who, step):
        """nf / re / explicit std reported == last assigned.  Resynchronises
        the record after a difference so that later steps stay checked."""
        shape = model.shape
        for name, attr in (('noise_floor', 'nf'), ('relative_error', 're')):
            rep = reported(getattr(real, name))
            exp = getattr(model, attr)
            self.compared += 1
            if equal_setting(rep, exp, shape):
                continue
            arr = rep is not None and rep.ndim == 3   # stored as an array
            half = (rep is not None and exp is not None and
                    equal_setting(rep, exp/2.0, shape))
            if opk.startswith('set_'):
                cls = f'{name}-differs-after-assignment'
            elif (name == 'noise_floor' and opk == 'add_noise' and arr
                  and half):
                cls = 'add_noise-halves-array-noise_floor'
                self.halved_now = True
            else:
                cls = f'{who}-{name}-changed-by-{opk}'
            self.add(cls, f'step {step} ({opk}): {who} survey reports a '
                     f'{name} that differs from the last assigned value'
                     + (' (exactly half of it)' if half else ''),
                     rep, exp)
            setattr(model, attr, None if rep is None else
                    np.array(np.broadcast_to(rep, shape)))
        has_sd = 'standard_deviation' in real.data.keys()
        self.compared += 1
        if has_sd != (model.sd is not None) or (has_sd and not ref.same(
                np.asarray(real.data['standard_deviation'].data), model.sd)):
            cls = ('standard_deviation-differs-after-assignment'
                   if opk.startswith('set_') else
                   f'{who}-standard_deviation-changed-by-{opk}')
            self.add(cls, f'step {step} ({opk}): explicit standard deviation '
                     f'of the {who} survey differs from the last assigned one',
                     np.asarray(real.data['standard_deviation'].data)
                     if has_sd else None, model.sd)
            model.sd = (np.array(real.data['standard_deviation'].data,
                                 dtype=float) if has_sd else None)

    def std(self, real, model, opk, who, step):
        """standard_deviation getter == noise model of the record."""
        exp = model.std()
        got = real.standard_deviation
        self.compared += 1
        if exp is None or got is None:
            if not (exp is None and got is None):
                self.add('standard_deviation-defined-mismatch',
                         f'step {step} ({opk}): std is '
                         f'{"None" if got is None else "set"}, expected '
                         f'{"None" if exp is None else "set"}')
            return
        got = np.asarray(got.data, dtype=float)
        fin = np.isfinite(model.data['observed']) | (model.sd is not None) \
            | (model.re is None)
        if got.shape != exp.shape or not ref.same(got[fin], exp[fin], 1e-14):
            self.add('standard_deviation-differs-from-noise-model',
                     f'step {step} ({opk}): std of the {who} survey is not '
                     'sqrt(nf^2+(re|d|)^2) / the assigned std', got, exp)

    def names(self, real, model, opk, step):
        got = [list(real.sources), list(real.receivers),
               list(real.frequencies)]
        coords = [list(real.data.src.values), list(real.data.rec.values),
                  list(real.data.freq.values)]
        self.compared += 1
        if got != model.names or coords != model.names or \
                tuple(real.shape) != model.shape:
            self.add(f'wrong-sources-receivers-frequencies-after-{opk}',
                     f'step {step} ({opk}): names / shape differ',
                     got, model.names)
            return False
        return True

    def data(self, real, model, opk, who, step, adopt=True):
        keys = [k for k in real.data.keys()
                if k not in ('_noise_floor', '_relative_error',
                             'standard_deviation')]
        self.compared += 1
        if sorted(keys) != sorted(model.data):
            self.add(f'{who}-data-sets-differ-after-{opk}',
                     f'step {step} ({opk}): data sets {keys} vs '
                     f'{list(model.data)}', keys, list(model.data))
            if adopt:
                model.data = {k: np.array(real.data[k].data) for k in keys}
            return
        for k in keys:
            got = np.asarray(real.data[k].data)
            self.compared += 1
            if got.dtype != model.data[k].dtype or \
                    not ref.same(got, model.data[k]):
                cls = ('selection-is-not-the-sub-cube' if opk == 'select'
                       else f'{who}-data-changed-by-{opk}')
                self.add(cls, f'step {step} ({opk}): data set {k!r} of the '
                         f'{who} survey differs from the record',
                         got, model.data[k])
                if adopt:
                    model.data[k] = np.array(got, dtype=complex)


def check_add_noise(tr, real, model, op, before_key_existed, std_ref, cut,
                    before, step):
    """Documented effect of add_noise on the data (cuts, size of the noise);
    then the new data are adopted by the record."""
    _, min_amp, ntype, add_to, _, _ = op
    after = np.array(real.data[add_to].data)
    tr.compared += 2
    if not np.isnan(after[cut]).all():
        tr.add('add_noise-cut-data-not-removed',
               f'step {step}: data below min_amplitude / outside the offset '
               'window are not NaN', after, cut)
    keep = ~cut & np.isfinite(before)
    if std_ref is not None:
        keep &= np.isfinite(std_ref)
    if not np.isfinite(after[keep]).all():
        tr.add('add_noise-removes-data-outside-the-cuts',
               f'step {step}: finite data outside the cuts became NaN',
               after, keep)
    elif std_ref is None:
        if not ref.same(after[keep], before[keep]):
            tr.add('add_noise-changes-data-without-noise-model',
                   f'step {step}: no std defined but data changed')
    else:
        delta = (after - before)[keep]
        sd = std_ref[keep]
        scale = np.maximum(np.abs(before[keep]), sd)
        ok = True
        if ntype == 'white_noise':
            bad = np.abs(np.abs(delta) - sd) > 1e-9*scale
            if bad.any() and tr.halved_now:
                # consequence of the halved noise floor (same defect)
                sd2 = ref.std_effective(model.nf, model.re, model.sd,
                                        model.data['observed'])[keep]
                bad = np.abs(np.abs(delta) - sd2) > 1e-9*scale
            ok = not bad.any()
        elif ntype == 'gaussian_correlated':
            ok = bool(np.all(np.abs(delta.real - delta.imag) <= 1e-9*scale))
            ok = ok and bool(np.any(delta != 0) or delta.size == 0)
        else:
            ok = bool(np.any(delta.real != delta.imag) or delta.size < 2)
        if not ok:
            tr.add('add_noise-noise-size-differs-from-standard_deviation',
                   f'step {step}: {ntype}: added noise is not of the size of '
                   'the standard deviation', np.abs(delta), sd)
    model.data[add_to] = after.astype(complex)


def apply_real(real, op, tmp, step, rng):
    """Run one operation on the real survey; returns the (new) current one."""
    import emg3d
    k = op[0]
    if k == 'add_noise':
        _, min_amp, ntype, add_to, min_off, max_off = op
        kw = {'min_amplitude': min_amp, 'ntype': ntype, 'add_to': add_to,
              'min_offset': min_off}
        if max_off is not None:
            kw['max_offset'] = max_off
        with rng:
            real.add_noise(**kw)
        return real
    if k == 'select':
        return real.select(sources=op[1], receivers=op[2],
                           frequencies=op[3], remove_empty=op[4])
    if k == 'copy':
        return real.copy()
    if k == 'dict':
        return emg3d.Survey.from_dict(real.to_dict())
    if k == 'file':
        fn = os.path.join(tmp, f'survey_{step}.{op[1]}')
        real.to_file(fn, verb=0)
        return emg3d.Survey.from_file(fn, verb=0)
    raise ValueError(k)


class _NoDir:
    def __enter__(self):
        return None

    def __exit__(self, *exc):
        return False


def history(c):
    ops = [list(o) for o in c['ops']]
    model, real = initial(c['init'])
    tr = Tracker(last_step_only=True)
    originals = []      # (real object, record, shares memory with current)
    rng = seeded_rng('c13', c['init'], [repr(o) for o in ops])
    alive = True
    broken = False
    nsteps = 0
    counts = {}
    need_tmp = any(op_kind(o) == 'file' for o in ops)
    with (tempfile.TemporaryDirectory(prefix='c13_') if need_tmp
          else _NoDir()) as tmp, warnings.catch_warnings():
        _quiet()
        if not ops:
            tr.report = True
        tr.settings(real, model, 'init', 'current', 0)
        tr.std(real, model, 'init', 'current', 0)
        tr.data(real, model, 'init', 'current', 0)
        for step, op in enumerate(ops, 1):
            tr.report = step == len(ops)
            tr.halved_now = False
            k = op_kind(op)
            if not applicable(op, model.names):
                alive = False
                break
            nsteps += 1
            counts[k] = counts.get(k, 0) + 1
            if k == 'add_noise':
                cut = model.cut_mask(op[1], op[4], op[5])
                std_ref = model.std()
                existed = op[3] in model.data
                before = (model.data[op[3]].copy() if existed else
                          np.zeros(model.shape, dtype=complex))
                real = apply_real(real, op, tmp, step, rng)
                tr.settings(real, model, k, 'current', step)
                check_add_noise(tr, real, model, op, existed, std_ref, cut,
                                before, step)
                tr.data(real, model, k, 'current', step)
                tr.std(real, model, k, 'current', step)
            elif k in ('select', 'copy', 'dict', 'file'):
                originals.append([real, model.snapshot(), k == 'dict'])
                new = apply_real(real, op, tmp, step, rng)
                if k == 'select':
                    model = model.select(op[1], op[2], op[3], op[4])
                else:
                    model = model.snapshot()
                real = new
                if not tr.names(real, model, k, step):
                    broken = True     # nothing sensible to compare any more
                    break
                tr.settings(real, model, k, 'current', step)
                tr.data(real, model, k, 'current', step)
                tr.std(real, model, k, 'current', step)
            elif k.startswith('set_'):
                which = k[4:]
                val = assigned_value(which, op[1], model.names)
                arg = None if val is None else np.array(val)
                if which == 'sd' and arg is not None:
                    arg = np.array(np.broadcast_to(arg, model.shape))
                attr = {'nf': 'noise_floor', 're': 'relative_error',
                        'sd': 'standard_deviation'}[which]
                try:
                    setattr(real, attr, arg)
                except TypeError as e:
                    if which == 'sd' or arg is None or arg.size != 1 \
                            or arg.ndim == 0:
                        raise
                    tr.add(SIZE_ONE_CLS, f'step {step}: {attr} = array of '
                           f'shape {arg.shape} raises TypeError: {e}',
                           repr(e))
                    setattr(real, attr, float(arg.ravel()[0]))
                # the caller keeps using (and overwriting) the array handed
                # over: the survey holds the values as they were assigned
                if arg is not None and arg.ndim > 0 and arg.flags.writeable:
                    arg *= 3.7
                model.assign(which, val)
                tr.settings(real, model, k, 'current', step)
                tr.data(real, model, k, 'current', step)
                tr.std(real, model, k, 'current', step)
            elif k == 'read':
                _ = real.standard_deviation
                _ = real.noise_floor, real.relative_error
                tr.settings(real, model, k, 'current', step)
                tr.data(real, model, k, 'current', step)
                tr.std(real, model, k, 'current', step)
            else:
                raise ValueError(k)
            # every object the current survey was derived from
            for o in originals:
                oreal, omodel, shared = o
                tr.settings(oreal, omodel, k, 'original', step)
                if not shared:
                    tr.data(oreal, omodel, k, 'original', step, adopt=True)
        # the misfit of the final survey follows the record's noise model
        mis = None
        if alive and not broken:
            tr.report = True
            std_ref = model.std()
            obs = model.data['observed']
            if std_ref is not None:
                g = zoo.rng('c13', 'e2syn', model.shape)
                dsyn = np.where(np.isfinite(obs), obs, 0)*(1.05 - 0.1j) + \
                    0.01*g.standard_normal(model.shape)
                final = real.copy()
                final.data['synthetic'] = final.data.observed.copy(data=dsyn)
                _, mis = real_misfit(final)
                m_ref = ref.misfit(dsyn, obs, std_ref)
                tr.compared += 1
                if not abs(mis - m_ref) <= 1e-11*abs(m_ref):
                    tr.add('misfit-differs-from-noise-model-after-history',
                           f'misfit {mis!r} vs reference {m_ref!r}', mis,
                           m_ref)
    obs = model.data['observed']
    outcome = (model.shape, int(np.isfinite(obs).sum()),
               'none' if model.nf is None else
               ('arr' if np.unique(model.nf).size > 1 else 'sc'),
               'none' if model.re is None else
               ('arr' if np.unique(model.re).size > 1 else 'sc'),
               model.sd is not None, len(originals), len(model.data),
               len(tr.viol) > 0) if alive and not broken else (
        ('not-applicable',) if not alive else ('stopped',))
    return {'viol': tr.viol if alive else [], 'compared': tr.compared,
            'transitions': nsteps, 'alive': alive and not broken,
            'names': model.names if alive and not broken else None,
            'nontrivial': alive and any(
                op_kind(o) in ('add_noise', 'select', 'copy', 'dict', 'file')
                for o in ops),
            'outcome': outcome,
            'count': {**{f'op_{k}': v for k, v in counts.items()},
                      'inherited_prefix_differences': tr.inherited,
                      'rng_calls': rng.calls}}


# ========================================================= E1: selections
FN_SEL = 'mc.checks.c13_noise:selection'
SEL_MASKS = ('none', 'datum', 'freq', 'rec+freq', 'src', 'almost-all')


def _sel_lists(keys):
    out = [None]
    for k in range(1, len(keys) + 1):
        for sub in itertools.permutations(keys, k):
            out.append(list(sub))
    return out


def selection(c):
    """Survey.select with lists in ANY order: the result holds exactly the
    chosen labels (minus, with remove_empty, those whose slice of the chosen
    sub-cube has no finite observation) and every datum / noise entry under a
    label triple is the one the original holds under that triple."""
    import emg3d
    shape = (2, 3, 3)
    v = e1_values({'shape': shape, 'nf': 'full', 're': 'freq', 'nan': 'none'})
    dobs = v['dobs'].copy()
    nanv = np.nan + 1j*np.nan
    m = c['mask']
    if m == 'datum':
        dobs[1, 0, 2] = nanv
    elif m == 'freq':
        dobs[:, :, 1] = nanv
    elif m == 'rec+freq':
        dobs[:, 2, :] = nanv
        dobs[:, :, 0] = nanv
    elif m == 'src':
        dobs[0, :, :] = nanv
    elif m == 'almost-all':
        dobs[...] = nanv
        dobs[1, 1, 2] = v['dobs'][1, 1, 2]
    src, rec, freq = _geometry(*shape)
    with warnings.catch_warnings():
        _quiet()
        survey = emg3d.Survey(src, rec, freq,
                              data={'observed': dobs.copy(),
                                    'synthetic': v['dsyn'].copy()},
                              noise_floor=np.copy(v['nf']),
                              relative_error=np.copy(v['re']))
        names = [list(src), list(rec), list(freq)]
        lists = [c['src'], c['rec'], c['freq']]
        chosen = [names[a] if lists[a] is None else lists[a]
                  for a in range(3)]
        idx = [[names[a].index(k) for k in chosen[a]] for a in range(3)]
        sub = dobs[np.ix_(*idx)]
        keep = [list(chosen[a]) for a in range(3)]
        if c['remove_empty'] and np.isfinite(sub).any():
            for a in range(3):
                other = tuple(x for x in range(3) if x != a)
                ok = np.isfinite(sub).any(axis=other)
                keep[a] = [k for k, o in zip(chosen[a], ok) if o]
        sel = survey.select(sources=c['src'], receivers=c['rec'],
                            frequencies=c['freq'],
                            remove_empty=c['remove_empty'])
    viol = []
    got = [list(sel.sources), list(sel.receivers), list(sel.frequencies)]
    tag = (f"select(sources={c['src']}, receivers={c['rec']}, frequencies="
           f"{c['freq']}, remove_empty={c['remove_empty']}), NaN mask "
           f"'{m}'")
    compared = 1
    if [sorted(g) for g in got] != [sorted(k) for k in keep]:
        viol.append({'cls': 'selection-holds-other-labels',
                     'what': f'{tag}: labels {got}, chosen sub-cube has '
                             f'{keep}', 'observed': got, 'expected': keep})
    else:
        full = {'observed': dobs, 'synthetic': v['dsyn'],
                'noise_floor': np.broadcast_to(v['nf'], shape),
                'relative_error': np.broadcast_to(v['re'], shape)}
        gi = [[names[a].index(k) for k in got[a]] for a in range(3)]
        for name, arr in full.items():
            want = arr[np.ix_(*gi)]
            if name in ('observed', 'synthetic'):
                have = np.asarray(sel.data[name].data)
            else:
                have = np.broadcast_to(np.asarray(getattr(sel, name)),
                                       want.shape)
            compared += 1
            if have.shape != want.shape or not ref.same(have, want):
                viol.append({
                    'cls': 'selection-is-not-the-sub-cube',
                    'what': f'{tag}: {name} of the selection is not the '
                            'original value under the same (source, receiver,'
                            ' frequency) labels', 'observed': have,
                    'expected': want})
                break
        # the objects behind the labels
        for a, (attr, orig) in enumerate((('sources', src),
                                          ('receivers', rec),
                                          ('frequencies', freq))):
            for k in got[a]:
                compared += 1
                if getattr(sel, attr)[k] != orig[k]:
                    viol.append({'cls': 'selection-relabels-objects',
                                 'what': f'{tag}: {attr}[{k}] differs'})
    # the original is untouched
    if not ref.same(np.asarray(survey.data.observed.data), dobs) or \
            list(survey.frequencies) != names[2]:
        viol.append({'cls': 'selection-changed-the-original',
                     'what': tag})
    return {'viol': viol, 'compared': compared, 'transitions': 1,
            'nontrivial': any(x is not None for x in lists),
            'outcome': (m, c['remove_empty'],
                        tuple(len(k) for k in keep))}


def selection_cases(tier):
    shape = (2, 3, 3)
    src, rec, freq = [[f'{p}{i}' for i in range(n)]
                      for p, n in zip('SRF', shape)]
    out = []
    for mask in SEL_MASKS:
        for re_ in (True, False):
            for s in _sel_lists(src):
                for r in _sel_lists(rec):
                    for f in _sel_lists(freq):
                        nlist = sum(x is not None for x in (s, r, f))
                        if tier == 'quick' and nlist == 3 and \
                                mask not in ('rec+freq', 'freq'):
                            continue
                        out.append({'mask': mask, 'remove_empty': re_,
                                    'src': s, 'rec': r, 'freq': f})
    return out


# ================================================ E2 on Simulation (misfit)
FN_SIM = 'mc.checks.c13_noise:simhistory'
SIM_OPS = ['misfit', 'nf:scalar', 'nf:full', 're:scalar', 're:rec', 're:none',
           'sd:full', 'sd:none', 'clean:computed', 'clean:all',
           'clean:keepresults', 'newsim:same', 'newsim:copy', 'touch',
           'obs:fill', 'obs:gap']
SIM_STARTS = {'A': {'nf': 'scalar', 're': 'scalar', 'nan': 'none'},
              'B': {'nf': 'src', 're': 'none', 'nan': 'one'}}


def _sim_value(op, shape):
    which, form = op.split(':')
    if form == 'none':
        return None
    if which == 'sd':
        s = np.arange(shape[0])[:, None, None]
        r = np.arange(shape[1])[None, :, None]
        q = np.arange(shape[2])[None, None, :]
        return 0.9 + 0.2*s + 0.07*r + 0.31*q + np.zeros(shape)
    v = form_value(form, shape, which)
    return v*1.7 if np.ndim(v) else v*2.3


def simhistory(c):
    """Histories on a real Simulation: misfit / explicit noise assignments /
    clean.  Whenever the misfit is (re)computed from scratch - first call, or
    first call after clean('computed'|'all') - it must follow the noise
    settings in force at that moment; a misfit read while the simulation still
    holds weights cached before a later assignment is not judged."""
    import emg3d
    shape = (2, 2, 2)
    st = SIM_STARTS[c['start']]
    v = e1_values({'shape': shape, 'nf': st['nf'], 're': st['re'],
                   'nan': st['nan']})
    ident = tuple(tuple(range(n)) for n in shape)
    viol, compared, nmis = [], 0, 0
    with warnings.catch_warnings():
        _quiet()
        survey = e1_survey(v, ident, 'unset', with_syn=False)
        sim = emg3d.Simulation(survey, tiny_model(), gridding='same',
                               max_workers=1, verb=-1, tqdm_opts=False,
                               receiver_interpolation='linear',
                               solver_opts={'maxit': 1, 'verb': 0})
        cur = {'nf': ref.setting(v['nf'], shape),
               're': ref.setting(v['re'], shape), 'sd': None}
        dobs = v['dobs']
        fin = np.isfinite(dobs)
        cached, stale = False, False
        disabled = False
        ops = list(c['ops'])
        if ops[-1] != 'misfit':
            ops.append('misfit')         # closing probe
        for i, op in enumerate(ops):
            where = f"history {ops[:i+1]} from start {c['start']}"
            if op == 'misfit':
                std_ref = ref.std_effective(cur['nf'], cur['re'], cur['sd'],
                                            dobs)
                try:
                    m = float(np.asarray(sim.misfit))
                except ValueError:
                    if std_ref is None and not cached:
                        disabled = True      # documented: no std defined
                        break
                    raise
                nmis += 1
                if not (cached and stale):
                    if std_ref is None:
                        viol.append({
                            'cls': 'misfit-without-standard_deviation',
                            'what': where + ': misfit returned although no '
                                    'standard deviation is defined'})
                        break
                    dsyn = np.asarray(sim.data.synthetic.data)
                    m_ref = ref.misfit(dsyn, dobs, std_ref)
                    compared += 2
                    if not abs(m - m_ref) <= 1e-11*abs(m_ref):
                        viol.append({
                            'cls': 'misfit-from-scratch-ignores-current-'
                                   'noise-settings' if i else
                                   'misfit-differs-from-noise-model',
                            'what': where + f': misfit {m!r}, noise model '
                                    f'in force gives {m_ref!r}',
                            'observed': m, 'expected': m_ref})
                    w = np.asarray(sim.data.weights.data, dtype=float)
                    if not ref.same(w[fin], 1.0/std_ref[fin]**2, 1e-13):
                        viol.append({
                            'cls': 'weights-differ-from-noise-model',
                            'what': where + ': data.weights != 1/std^2 of '
                                    'the settings in force',
                            'observed': w, 'expected': 1.0/std_ref**2})
                    stale = False
                cached = True
            elif op.startswith('clean:'):
                what = op.split(':')[1]
                sim.clean(what)
                if what in ('computed', 'all'):
                    cached, stale = False, False
            elif op == 'touch':
                # reading survey attributes (some are cached on first use)
                sv = sim.survey
                _ = (sv.isfinite, sv.count, sv.size, sv.shape,
                     sv.finite_data('observed'), repr(sv))
            elif op.startswith('obs:'):
                # the observed data get another NaN pattern (a gap filled, a
                # datum flagged): explicit edit of the data by the user
                if op == 'obs:fill':
                    dobs = dobs.copy()
                    gaps = np.argwhere(~np.isfinite(dobs))
                    if len(gaps) == 0:
                        disabled = True
                        break
                    dobs[tuple(gaps[0])] = 0.7 - 0.4j
                else:
                    dobs = dobs.copy()
                    dobs[1, 1, 0] = np.nan + 1j*np.nan
                sim.survey.data['observed'][...] = dobs
                fin = np.isfinite(dobs)
                if cached:
                    stale = True
            elif op.startswith('newsim:'):
                # a NEW Simulation on the same survey object (or a copy of
                # it): nothing of an earlier simulation may survive in it
                sv = sim.survey if op.endswith('same') else sim.survey.copy()
                sim = emg3d.Simulation(
                    sv, tiny_model(), gridding='same', max_workers=1,
                    verb=-1, tqdm_opts=False,
                    receiver_interpolation='linear',
                    solver_opts={'maxit': 1, 'verb': 0})
                cached, stale = False, False
            else:
                which = op.split(':')[0]
                val = _sim_value(op, shape)
                name = {'nf': 'noise_floor', 're': 'relative_error',
                        'sd': 'standard_deviation'}[which]
                setattr(sim.survey, name,
                        None if val is None else np.copy(val))
                cur[which] = (None if val is None else
                              ref.setting(val, shape))
                if cached:
                    stale = True
            # no operation other than an assignment changes the settings
            for name, key in (('noise_floor', 'nf'),
                              ('relative_error', 're')):
                compared += 1
                if not equal_setting(reported(getattr(sim.survey, name)),
                                     cur[key], shape):
                    viol.append({'cls': f'{name}-changed-by-simulation-op',
                                 'what': where + f': {name} is not the last '
                                         'assigned value',
                                 'observed': getattr(sim.survey, name),
                                 'expected': cur[key]})
            sd_now = sim.survey.standard_deviation
            sd_ref = ref.std_effective(cur['nf'], cur['re'], cur['sd'], dobs)
            compared += 1
            if (sd_ref is None) != (sd_now is None) or (
                    sd_ref is not None and not ref.same(
                        np.asarray(sd_now.data, float)[fin], sd_ref[fin],
                        1e-14)):
                viol.append({'cls': 'standard_deviation-differs-from-noise-'
                                    'model',
                             'what': where + ': survey.standard_deviation is '
                                     'not what the settings in force give'})
            if viol:
                break
    return {'viol': viol, 'compared': compared,
            'transitions': len(ops), 'nontrivial': nmis > 0,
            'outcome': (c['start'], nmis, cached, stale, disabled),
            'count': {'misfit_evaluations': nmis}}


def sim_cases(depth):
    out = []
    for start in SIM_STARTS:
        for d in range(1, depth + 1):
            for ops in itertools.product(SIM_OPS, repeat=d):
                # two cleans / two assignments of the same setting in a row
                # reach the same state as the last one alone
                if any(a.split(':')[0] == b.split(':')[0] and a != 'misfit'
                       and not a.startswith('newsim') and a != 'touch'
                       for a, b in zip(ops, ops[1:])):
                    continue
                out.append({'start': start, 'ops': list(ops)})
    return out


def alphabet(tier):
    S, R, F = list(SRC_X), list(REC), list(FREQ)
    an = 'add_noise'
    wn, gc, gu = 'white_noise', 'gaussian_correlated', 'gaussian_uncorrelated'
    core = [
        [an, 'half_nf', wn, 'observed', 0.0, None],
        [an, None, wn, 'observed', 0.0, None],
        [an, MIN_AMP, gc, 'observed', 0.0, None],
        [an, 'half_nf', gu, 'noisy', 0.0, None],
        [an, 'half_nf', wn, 'observed', MIN_OFF, MAX_OFF],
        ['select', [S[1]], None, None, True],
        ['select', None, [R[2], R[0]], None, True],
        ['select', None, None, [F[1]], True],
        ['select', [S[1]], [R[1], R[2]], [F[0]], True],
        ['select', [S[1]], None, None, False],
        ['select', None, [R[2], R[0]], None, False],
        ['copy'], ['dict'], ['file', 'h5'], ['file', 'npz'], ['file', 'json'],
        ['set_nf', 'none'], ['set_nf', 'scalar'], ['set_nf', 'rec'],
        ['set_re', 'scalar'], ['set_re', 'freq'],
        ['set_sd', 'full'], ['set_sd', 'none'],
        ['read'],
    ]
    extra = [
        [an, None, gc, 'observed', 0.0, None],
        [an, None, gu, 'observed', 0.0, None],
        [an, MIN_AMP, wn, 'observed', 0.0, None],
        [an, 'half_nf', wn, 'noisy', 0.0, None],
        [an, 'half_nf', wn, 'observed', MIN_OFF, None],
        [an, 'half_nf', wn, 'observed', 0.0, MAX_OFF],
        [an, None, gc, 'noisy', MIN_OFF, MAX_OFF],
        ['select', [S[0]], None, None, True],
        ['select', [S[0]], None, None, False],
        ['select', None, [R[0]], None, True],
        ['select', None, [R[1], R[2]], None, True],
        ['select', None, [R[1], R[2]], None, False],
        ['select', None, None, [F[0]], True],
        ['select', None, None, [F[1]], False],
        ['select', [S[1], S[0]], [R[0], R[1], R[2]], [F[1], F[0]], False],
        ['set_nf', 'src'], ['set_nf', 'full'],
        ['set_re', 'none'], ['set_re', 'src'], ['set_re', 'full'],
    ]
    return core, extra


def run_histories(ctx, name, inits, ops, depth, time_cap, rule):
    """BFS by levels; only applicable histories are extended."""
    t_end = ctx.elapsed() + time_cap
    frontier = [{'init': i, 'ops': []} for i in inits]
    names0 = [list(SRC_X), list(REC), list(FREQ)]
    front_names = [names0 for _ in frontier]
    done = -1
    for level in range(0, depth + 1):
        if level > 0:
            new = []
            for h, nm in zip(frontier, front_names):
                for op in ops:
                    if applicable(op, nm):
                        new.append({'init': h['init'],
                                    'ops': h['ops'] + [op]})
            frontier = new
        left = t_end - ctx.elapsed()
        if left <= 1:
            break
        res = ctx.explore(name, FN_E2, frontier, engine='E2', rule=rule,
                          time_cap=left)
        if any(r is None for r in res):
            break
        done = level
        keep = [(h, r['names']) for h, r in zip(frontier, res)
                if r.get('alive') and r.get('names')]
        frontier = [h for h, _ in keep]
        front_names = [n for _, n in keep]
    return done


def prepare(ctx):
    import emg3d  # noqa
    # compile what the tiny real computations need, once, in the parent
    with warnings.catch_warnings():
        _quiet()
        formula({'shape': (1, 2, 1), 'nf': 'scalar', 're': 'rec',
                 'sd': 'unset', 'nan': 'none', 'route': 'compute'})


def run(ctx):
    prepare(ctx)
    ctx.assume(
        "data values, noise settings and geometry come from fixed alphabets "
        "(every entry different, one seeded factor per datum); survey shapes "
        "<= 3x3x3 (E1) and 2x3x2 at the start of a history (E2)",
        "Simulation.misfit is driven with data.synthetic given and "
        "_computed=True (what compute() sets); a covering subset computes "
        "the fields for real on a 4x4x4 grid",
        "randomness of add_noise is seeded through numpy.random.default_rng "
        "(seam); for gaussian_uncorrelated noise only finiteness and "
        "Re != Im are checked",
        "histories are bounded in depth; operations outside the alphabet "
        "(in-place edits of returned arrays) are not explored; sharing of "
        "memory is not flagged, only reported values that change",
        "Survey.from_dict(to_dict()) without copy=True shares its arrays by "
        "design: data of that original are not compared, its noise settings "
        "are")
    quick = ctx.quick
    cap = ctx.budget or (700 if quick else 2800)
    stub, comp = e1_cases(ctx.tier)
    if ctx.wants('formula'):
        ctx.explore(
            'formula', FN_E1, stub, engine='E1',
            rule='full product shape {1,2,3}^3 x 6 noise-floor forms x 6 '
                 'relative-error forms x explicit std {unset,set,set-then-'
                 'None} x NaN mask {none,datum,row}; misfit through the real '
                 'Simulation.misfit; '
                 + ('all permutations per axis + full reversal for the '
                    'one-NaN mask (std unset / set)' if quick else
                    'all products of axis permutations (NaN masks) / all '
                    'permutations per axis (no NaN)')
                 + '; non-trivial = at least one finite datum and a std',
            time_cap=cap*0.45)
    if ctx.wants('formula-compute'):
        ctx.explore(
            'formula-compute', FN_E1, comp, engine='E1',
            rule='all 27 shapes x covering noise forms with really computed '
                 'fields (4x4x4 grid, one multigrid cycle)',
            time_cap=cap*0.15)
    if ctx.wants('selections'):
        ctx.explore(
            'selections', FN_SEL, selection_cases(ctx.tier), engine='E1',
            rule='survey 2x3x3 with array noise settings x 6 NaN masks '
                 '(incl. whole frequencies / receivers / sources empty) x '
                 'remove_empty x ALL ordered sub-lists (any order, any '
                 'subset) per axis (quick: triples of lists only for the '
                 'masks with empty slices); labels and label-wise values of '
                 'the selection vs the chosen sub-cube; non-trivial = a list '
                 'was given',
            time_cap=cap*0.5)
    if ctx.wants('simulation-histories'):
        d = 3 if quick else 4
        ctx.explore(
            'simulation-histories', FN_SIM, sim_cases(d), engine='E2',
            rule=f'all sequences up to length {d} over {len(SIM_OPS)} '
                 'operations on a real Simulation (misfit, explicit '
                 'assignments of noise_floor / relative_error / '
                 'standard_deviation, clean x3) from 2 start surveys, fields '
                 'really computed (4x4x4 grid, one multigrid cycle); '
                 'every history is closed by a misfit probe; sequences with '
                 'an immediately overwritten assignment/clean are skipped; '
                 'non-trivial = '
                 'the misfit was evaluated',
            time_cap=cap*0.5)
    core, extra = alphabet(ctx.tier)
    what = ('(add_noise variants, selections, copy, dict, h5/npz/json, '
            'assignments, read); fresh survey per history; only applicable '
            'histories are extended; non-trivial = contains add_noise / '
            'select / copy / round trip')
    if quick:
        plan = [('histories-other-starts', ['B', 'C'],
                 quick_alphabet(core), 2, 0.2),
                ('histories', ['A'], quick_alphabet(core), 3, 1.0)]
    else:
        plan = [('histories', ['A'], core + extra, 3, 0.55),
                ('histories-other-starts', ['B', 'C', 'D'], core, 3, 0.6),
                ('histories-deep', ['A'], deep_alphabet(core), 4, 1.0)]
    for name, inits, ops, depth, share in plan:
        if not ctx.wants(name):
            continue
        left = max(5.0, (cap - ctx.elapsed())*share)
        d = run_histories(
            ctx, name, inits, ops, depth, left,
            rule=f'BFS to depth {depth} over all sequences of {len(ops)} '
                 f'operations from initial surveys {inits} ' + what)
        ctx.notes[f'{name}_complete_depth'] = d
        ctx.log(f'{name}: complete to depth {d}')


def quick_alphabet(core):
    drop = (7, 9, 16, 19)
    return [o for i, o in enumerate(core) if i not in drop]


def deep_alphabet(core):
    keep = [0, 1, 3, 4, 6, 8, 11, 12, 15, 18, 21, 22]
    return [core[i] for i in keep]
