"""Entry point: ./check <ID> [--tier quick|thorough] [--replay FILE] [--jobs N].

Contract (see DESIGN.md 1.1): exit 0 iff no unlisted violation was found; one
stdout line ``VIOLATION property=<id> replay=<path>`` per (reported) violation
and exit 1; one line ``KNOWN-FINDING: property=<id> <what fails>`` per listed
open finding that reproduces.  Evidence is rewritten on every run.
"""
import argparse
import importlib
import json
import os
import pkgutil
import sys
import time
import traceback

from . import context


def find_module(pid):
    from . import checks
    for m in pkgutil.iter_modules(checks.__path__):
        if m.name.lower().startswith(pid.lower() + '_'):
            return importlib.import_module(f'mc.checks.{m.name}')
    raise SystemExit(f"no check module for {pid}")


def main(argv=None):
    ap = argparse.ArgumentParser(prog='check')
    ap.add_argument('pid')
    ap.add_argument('--tier', default=os.environ.get('VERIF_TIER', 'quick'),
                    choices=['quick', 'thorough'])
    ap.add_argument('--replay', default=None)
    ap.add_argument('--jobs', type=int,
                    default=int(os.environ.get('VERIF_JOBS', '0')))
    ap.add_argument('--budget', type=float, default=None,
                    help='wall-time cap in seconds (overrides tier default)')
    ap.add_argument('--only', default=None,
                    help='comma list of sub-explorations to run (debugging)')
    args = ap.parse_args(argv)

    pid = args.pid.upper()
    seed = int(os.environ.get('VERIF_SEED', '0') or 0)
    mod = find_module(pid)
    ctx = context.Ctx(pid, args.tier, seed, args.jobs or None,
                      level=getattr(mod, 'LEVEL', 'model_checking'),
                      budget=args.budget, only=args.only)

    if args.replay:
        with open(args.replay) as f:
            rec = json.load(f)
        return context.replay(mod, ctx, rec)

    try:
        mod.run(ctx)
    except SystemExit:
        raise
    except BaseException:  # a crashing check is a broken check, say so loudly
        traceback.print_exc()
        print(f"CHECK-ERROR property={pid} (the check itself failed)")
        ctx.write_evidence(error=True)
        return 2
    return ctx.finish()


if __name__ == '__main__':
    t0 = time.time()
    sys.exit(main())
