"""Entry point: ./check <ID> [--tier quick|thorough] [--replay FILE] [--jobs N].

Contract (see DESIGN.md 1.1): exit 0 iff no unlisted violation was found; one
stdout line ``VIOLATION property=<id> replay=<path>`` per (reported) violation
and exit 1; one line ``KNOWN-FINDING: property=<id> <what fails>`` per listed
open finding that reproduces.  Evidence is rewritten on every run.
"""
import argparse
import importlib
import json
import os
import pkgutil
import sys
import time
import traceback

from . import context


def find_module(pid):
    from . import checks
    for m in pkgutil.iter_modules(checks.__path__):
        if m.name.lower().startswith(pid.lower() + '_'):
            return importlib.import_module(f'mc.checks.{m.name}')
    raise SystemExit(f"no check module for {pid}")


def main(argv=None):
    ap = argparse.ArgumentParser(prog='check')
    ap.add_argument('pid')
    ap.add_argument('--tier', default=os.environ.get('VERIF_TIER', 'quick'),
                    choices=['quick', 'thorough'])
    ap.add_argument('--replay', default=None)
    ap.add_argument('--jobs', type=int,
                    default=int(os.environ.get('VERIF_JOBS', '0')))
    ap.add_argument('--budget', type=float, default=None,
                    help='wall-time cap in seconds (overrides tier default)')
    ap.add_argument('--only', default=None,
                    help='comma list of sub-explorations to run (debugging)')
    args = ap.parse_args(argv)

    pid = args.pid.upper()
    seed = int(os.environ.get('VERIF_SEED', '0') or 0)
    mod = find_module(pid)
    ctx = context.Ctx(pid, args.tier, seed, args.jobs or None,
                      level=getattr(mod, 'LEVEL', 'model_checking'),
                      budget=args.budget, only=args.only)

    if args.replay:
        with open(args.replay) as f:
            rec = json.load(f)
        return context.replay(mod, ctx, rec)

    try:
        mod.run(ctx)
    except SystemExit:
        raise
    except BaseException as e:
        traceback.print_exc()
        if _raised_in_code_under_test(e):
            # the warm-up / parent-side part of a check drives emg3d with
            # valid documented inputs only; on the unchanged tree nothing
            # raises.  An exception coming out of emg3d itself is therefore a
            # finding about emg3d, not a broken check.
            ctx.violation('parent-process', 'mc.runner:rerun_prepare',
                          {'pid': pid}, {
                              'cls': f'exception-in-code-under-test:'
                                     f'{type(e).__name__}',
                              'what': 'emg3d raised while the check prepared '
                                      'or drove it in the parent process: '
                                      + str(e).strip().split('\n')[0][:300],
                              'observed': traceback.format_exc()[-3000:]})
            return ctx.finish()
        # a crashing check is a broken check, say so loudly
        print(f"CHECK-ERROR property={pid} (the check itself failed)")
        ctx.write_evidence(error=True)
        return 2
    return ctx.finish()


def _raised_in_code_under_test(exc):
    """Does the traceback end inside the emg3d package (or in numba while
    compiling one of its kernels)?"""
    try:
        import emg3d
        root = os.path.dirname(os.path.abspath(emg3d.__file__)) + os.sep
    except Exception:  # noqa - emg3d itself does not import
        return True
    frames = traceback.extract_tb(exc.__traceback__)
    inside = [os.path.abspath(f.filename).startswith(root) for f in frames]
    if not any(inside):
        return False
    # last frame that is neither library nor checker code
    last_emg3d = max(i for i, b in enumerate(inside) if b)
    mc_root = os.path.dirname(os.path.abspath(__file__)) + os.sep
    later_mc = any(os.path.abspath(f.filename).startswith(mc_root)
                   for f in frames[last_emg3d+1:])
    return not later_mc


def rerun_prepare(c):
    """Replay of a parent-process exception: run the check's warm-up."""
    mod = find_module(c['pid'])
    try:
        if hasattr(mod, 'prepare'):
            mod.prepare(None)
    except Exception as e:  # noqa
        return {'viol': [{'cls': 'exception-in-code-under-test:'
                                 + type(e).__name__, 'what': str(e)[:300]}]}
    return {'viol': []}


if __name__ == '__main__':
    t0 = time.time()
    sys.exit(main())
