"""Setup self-test: imports, reference model sanity, manifest validity."""
import json
import os
import subprocess
import sys

import numpy as np

ROOT = os.path.dirname(os.path.dirname(os.path.abspath(__file__)))


def main():
    import emg3d  # noqa
    from mc import runner, context, space, zoo, impl  # noqa
    from mc.refmodel import fit
    h = [np.array([1., 2.]), np.array([1., 1., 3.]), np.array([2., 1.])]
    A = fit.assemble(h, (np.ones((2, 3, 2)),)*3, 2j)
    assert A.shape[0] == sum(fit.nedges((2, 3, 2)))
    assert abs(A - A.T).max() < 1e-14
    man = os.path.join(ROOT, 'MANIFEST.json')
    json.load(open(man))
    vt = '/opt/veriftools/pyvenv/bin/python'
    if os.path.exists(vt) and os.path.exists('/root/.vp/MANIFEST.schema.json'):
        code = ("import json,jsonschema,sys;"
                "jsonschema.validate(json.load(open(sys.argv[1])),"
                "json.load(open('/root/.vp/MANIFEST.schema.json')))")
        subprocess.run([vt, '-c', code, man], check=True)
    print('selftest ok')


if __name__ == '__main__':
    sys.exit(main())
