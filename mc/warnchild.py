"""Child of C16 'warning-histories': a fresh interpreter with Python's default
warning filters plus whatever emg3d installs on import (nothing else touches
the filters; warnings are observed through warnings.showwarning, which the
filters feed).  Runs one history of construct_mesh calls and prints, per
call, whether the sea surface became a node and which emg3d warnings were
shown for that call."""
import json
import sys
import warnings


def main():
    hist = json.loads(sys.argv[1])
    shown = []

    def show(message, category, filename, lineno, file=None, line=None):
        shown.append(str(message))
    warnings.showwarning = show
    import numpy as np
    import emg3d
    out = []
    for op in hist:
        del shown[:]
        kw = dict(op)
        grid = emg3d.construct_mesh(**kw)
        ss = kw.get('seasurface')
        nodes = np.asarray(grid.nodes_z)
        out.append({'node': bool(np.any(np.abs(nodes - ss) < 1e-6))
                    if ss is not None else None,
                    'shown': list(shown), 'nz': int(nodes.size - 1)})
    print(json.dumps(out))


if __name__ == '__main__':
    main()
