"""Real-pool conformance runs for C11 (executed in a fresh interpreter):
python -m mc.realpool '<json spec>'

Runs the 2x2 survey on a real ProcessPoolExecutor for each forced completion
order (per-task delays) and compares bit-for-bit with the sequential run.
"""
import json
import shutil
import sys
import tempfile
import time
import warnings

import numpy as np

DELAYS = None       # list of delays by task position (set per run)
STEP = 0.12
FINISHED = []


def delayed_solve(pair):
    import emg3d._multiprocessing as mp_
    delay, inp = pair
    out = _ORIG_SOLVE(inp)
    time.sleep(delay)
    return out


_ORIG_SOLVE = None
_ORIG_PMAP = None
TARGET = {'n': 0}


def patched_process_map(fn, items, max_workers, **kw):
    """Wrap items of the targeted call with delays; everything else goes to
    the real process_map unchanged."""
    call = TARGET['n']
    TARGET['n'] += 1
    if call in TARGET['which'] and DELAYS is not None and max_workers > 1:
        pairs = [(DELAYS[i], it) for i, it in enumerate(items)]
        return _ORIG_PMAP(delayed_solve, pairs, max_workers=max_workers, **kw)
    return _ORIG_PMAP(fn, items, max_workers=max_workers, **kw)


def main():
    global DELAYS, _ORIG_SOLVE, _ORIG_PMAP
    spec = json.loads(sys.argv[1])
    import emg3d._multiprocessing as mp_
    from mc.checks import c11_schedules as c11
    from mc import impl
    impl.warm()
    _ORIG_SOLVE = mp_.solve
    _ORIG_PMAP = mp_.process_map
    patched_process_map.count = 0
    mp_.process_map = patched_process_map
    kind = spec['kind']
    TARGET['which'] = (0, 1)
    ref, _ = c11.run_once(2, 2, kind, 1, None, True, None, repeat=False)
    bad = []
    runs = 0
    as_forced = 0
    observed = set()
    for order in spec['orders']:
        # task completing r-th gets delay r*STEP
        DELAYS = [0.0]*4
        for rank, task in enumerate(order):
            DELAYS[task] = rank*STEP
        TARGET['n'] = 0
        tmp = tempfile.mkdtemp(prefix='c11r_') if spec['file'] else None
        try:
            with warnings.catch_warnings():
                warnings.simplefilter('ignore')
                obs, _ = c11.run_once(2, 2, kind, spec['k'], tmp, True, None,
                                      repeat=False)
        finally:
            if tmp:
                shutil.rmtree(tmp, ignore_errors=True)
        runs += 1
        names = c11.differences(obs, ref)
        if names:
            bad.append({'order': list(order), 'names': names})
        # with k >= 4 all tasks run concurrently: order is as forced
        as_forced += int(spec['k'] >= 4)
        observed.add(tuple(order))
    print(json.dumps({'runs': runs, 'bad': bad, 'as_forced': as_forced,
                      'observed_orders': len(observed)}))


if __name__ == '__main__':
    main()
