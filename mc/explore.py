"""Engine E2: explicit-state breadth-first search over operation histories.

A state is the history reaching it.  The worker function rebuilds a *fresh*
real object for every history, replays it, evaluates the oracle and returns a
canonical key of the state reached (``key``), or ``disabled`` if the last
operation's documented precondition is not met.  Histories that reach an
already-seen canonical state are not extended (state merging).  Search is
level by level, so complete depths are reported.
"""


def bfs(ctx, name, fnpath, ops, max_depth, base, *, rule='', time_cap=None,
        init_key='<initial>', chunksize=None):
    """Returns dict(states, transitions, depth_completed, per_level)."""
    import time
    t0 = time.time()
    seen = {init_key}
    frontier = [[]]
    transitions = 0
    per_level = []
    depth_completed = 0
    for depth in range(1, max_depth+1):
        cands = [h + [op] for h in frontier for op in ops]
        if not cands:
            break
        left = None if time_cap is None else max(5, time_cap -
                                                 (time.time() - t0))
        cases = [dict(base, hist=h) for h in cands]
        res = ctx.explore(name, fnpath, cases, engine='E2', rule=rule,
                          time_cap=left, chunksize=chunksize)
        nxt = []
        complete = True
        new = disabled = 0
        for h, r in zip(cands, res):
            if r is None:
                complete = False
                continue
            transitions += 1
            if r.get('disabled'):
                disabled += 1
                continue
            k = r.get('key')
            if k is None:      # violating / crashed states are not extended
                continue
            if k not in seen:
                seen.add(k)
                nxt.append(h)
                new += 1
        per_level.append({'depth': depth, 'histories': len(cands),
                          'new_states': new, 'disabled': disabled,
                          'complete': complete})
        ctx.log(f'{name}: depth {depth}: {len(cands)} histories, {new} new '
                f'states, {disabled} disabled, complete={complete}')
        if not complete:
            break
        depth_completed = depth
        frontier = nxt
    out = {'distinct_states': len(seen), 'transitions': transitions,
           'depth_completed': depth_completed, 'per_level': per_level}
    ctx.notes.setdefault('bfs', {})[name] = out
    return out
