"""Builders of grids / models / fields from small JSON-able specs (the value
alphabets of DESIGN.md 1.3).  The only seeded-random profile is 'rnd'; it is
seeded by VERIF_SEED, the enumeration itself never depends on the seed."""
import os
import zlib

import numpy as np

SEED = int(os.environ.get('VERIF_SEED', '0') or 0)

WPROFILES = ('uni', 'geo', 'alt', 'rnd')
SCALE = (1.0, 0.7, 1.9)       # different scale per direction (x/y/z mix-ups)


def rng(*tag):
    """Deterministic generator for a tag (stable across processes)."""
    h = zlib.crc32(repr(tag).encode())
    return np.random.default_rng([SEED, h])


def widths(n, prof, axis=0):
    if prof == 'uni':
        w = np.ones(n)
    elif prof == 'geo':
        w = 1.3**np.arange(n)
    elif prof == 'geor':
        w = 1.3**np.arange(n)[::-1]
    elif prof == 'alt':
        w = np.where(np.arange(n) % 2 == 0, 1.0, 2.5)
    elif prof == 'rnd':
        w = rng('w', n, axis).uniform(1.0, 3.0, n)
    else:
        raise ValueError(prof)
    return w*SCALE[axis]


def mesh(spec):
    """spec = {'shape': (nx,ny,nz), 'w': 'uni' | (px,py,pz), 'unit': 50.}"""
    import emg3d
    shape = spec['shape']
    w = spec.get('w', 'uni')
    if isinstance(w, str):
        # one name: rotate profiles so directions differ (except 'uni')
        if w == 'uni':
            w = ('uni',)*3
        elif w == 'mix':
            w = ('geo', 'alt', 'rnd')
        else:
            i = WPROFILES.index(w) if w in WPROFILES else 1
            w = tuple([w, WPROFILES[1 + i % 3], WPROFILES[1 + (i+1) % 3]])
    unit = spec.get('unit', 50.0)
    h = [widths(shape[d], w[d], d)*unit for d in range(3)]
    origin = spec.get('origin', (-10.0, 3.0, -500.0))
    return emg3d.TensorMesh(h, origin=origin)


CASES = ('isotropic', 'VTI', 'HTI', 'triaxial')
MAPPINGS = ('Conductivity', 'Resistivity', 'LgConductivity', 'LgResistivity',
            'LnConductivity', 'LnResistivity')


def cell_values(shape, prof, tag, lo=0.05, hi=5.0):
    """Positive cell values: hom / lay / rnd."""
    if prof == 'hom':
        base = {'x': 0.8, 'y': 0.3, 'z': 1.7, 'm': 1.4, 'e': 3.0}.get(tag, 1.)
        return np.full(shape, base)
    if prof == 'lay':
        r = rng('lay', tag, shape[2])
        v = 10**r.uniform(np.log10(lo), np.log10(hi), shape[2])
        return np.broadcast_to(v[None, None, :], shape).copy()
    if prof == 'rnd':
        r = rng('rnd', tag, tuple(shape))
        return 10**r.uniform(np.log10(lo), np.log10(hi), shape)
    raise ValueError(prof)


def to_mapping(cond, mapping):
    if mapping == 'Conductivity':
        return cond
    if mapping == 'Resistivity':
        return 1.0/cond
    if mapping == 'LgConductivity':
        return np.log10(cond)
    if mapping == 'LgResistivity':
        return -np.log10(cond)
    if mapping == 'LnConductivity':
        return np.log(cond)
    if mapping == 'LnResistivity':
        return -np.log(cond)
    raise ValueError(mapping)


def model(grid, spec):
    """spec = {'case', 'prof', 'mu_r': bool, 'eps_r': bool, 'mapping'}."""
    import emg3d
    shape = tuple(grid.shape_cells)
    case = spec.get('case', 'isotropic')
    prof = spec.get('prof', 'rnd')
    mapping = spec.get('mapping', 'Conductivity')
    kw = {}
    kw['property_x'] = to_mapping(cell_values(shape, prof, 'x'), mapping)
    if case in ('HTI', 'triaxial'):
        kw['property_y'] = to_mapping(cell_values(shape, prof, 'y'), mapping)
    if case in ('VTI', 'triaxial'):
        kw['property_z'] = to_mapping(cell_values(shape, prof, 'z'), mapping)
    if spec.get('mu_r') == 'near1':
        # weakly magnetic: |mu_r - 1| <= 1e-5 everywhere, but not 1
        kw['mu_r'] = 1.0 + (cell_values(shape, 'rnd', 'm1', 0.1, 1.0)
                            - 0.55)*1.8e-5
    elif spec.get('mu_r'):
        kw['mu_r'] = cell_values(shape, prof, 'm', 0.5, 3.0)
    if spec.get('eps_r'):
        # large values so that the displacement term is visible at 1 Hz..1 kHz
        kw['epsilon_r'] = cell_values(shape, prof, 'e', 1e6, 1e8)
    return emg3d.Model(grid, mapping=mapping, **kw)


def sval_of(freq):
    """Laplace parameter as emg3d defines it: f>0 -> 2j*pi*f, f<0 -> |f|."""
    if freq is None:
        return None
    return 2j*np.pi*freq if freq > 0 else complex(-freq).real


def random_field(grid, tag, dtype=complex, pec=True):
    """Seeded field vector with O(1) entries; PEC boundary if asked."""
    from .refmodel import fit
    n = tuple(grid.shape_cells)
    N = sum(fit.nedges(n))
    r = rng('field', tag, n)
    v = r.standard_normal(N)
    if np.dtype(dtype).kind == 'c':
        v = v + 1j*r.standard_normal(N)
    if pec:
        v = v*fit.interior_mask(n)
    return v.astype(dtype)
