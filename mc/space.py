"""Finite domains: full products and deviation-bounded lattices (engine E1).

A *domain* is an ordered dict ``name -> [default, alt1, alt2, ...]``.  The
lattice of depth d contains every configuration that differs from the default
in at most d parameters; it is generated breadth-first (fewest deviations
first), so the first counterexample has the fewest deviations.
"""
import itertools


def product(domains, names=None):
    names = list(names or domains)
    for vals in itertools.product(*(domains[n] for n in names)):
        yield dict(zip(names, vals))


def default(domains):
    return {n: v[0] for n, v in domains.items()}


def lattice(domains, depth):
    """All configurations with <= depth non-default parameters.

    Yields (config, deviations) with deviations a tuple of (name, index)."""
    names = list(domains)
    base = default(domains)
    yield dict(base), ()
    for d in range(1, depth+1):
        for combo in itertools.combinations(names, d):
            alts = [range(1, len(domains[n])) for n in combo]
            for idx in itertools.product(*alts):
                cfg = dict(base)
                for n, i in zip(combo, idx):
                    cfg[n] = domains[n][i]
                yield cfg, tuple(zip(combo, idx))


def lattice_size(domains, depth):
    """(number of configurations, number of lattice edges)."""
    n = 0
    edges = 0
    for d in range(0, depth+1):
        for combo in itertools.combinations(list(domains), d):
            k = 1
            for c in combo:
                k *= len(domains[c]) - 1
            n += k
            edges += k*d
    return n, edges
