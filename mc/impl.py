"""Thin drivers of the real emg3d code used by several checks: dense matrices
of the real linear maps obtained from full unit bases, JIT warm-up."""
import numpy as np


def vmodel_and_sfield(model, freq):
    """(VolumeModel, zero source field) for an emg3d model and frequency."""
    import emg3d
    sfield = emg3d.Field(model.grid, frequency=freq)
    return emg3d.models.VolumeModel(model, sfield), sfield


def amat_dense(grid, vmodel, dtype, cols=None, py_func=False, zero_eta=False):
    """Dense matrix of the real core.amat_x on the given columns (default:
    all edges).  Column j = A e_j, from r := 0; amat_x(r, e_j) -> r = -A e_j.
    """
    import emg3d
    from emg3d import core
    fn = core.amat_x.py_func if py_func else core.amat_x
    e = emg3d.Field(grid, dtype=dtype)
    r = emg3d.Field(grid, dtype=dtype)
    ex, ey, ez = e.fx, e.fy, e.fz
    rx, ry, rz = r.fx, r.fy, r.fz
    assert np.shares_memory(ex, e.field) and np.shares_memory(rz, r.field)
    ev, rv = e.field, r.field
    N = ev.size
    cols = np.arange(N) if cols is None else np.asarray(cols)
    eta = [vmodel.eta_x, vmodel.eta_y, vmodel.eta_z]
    if zero_eta:
        eta = [np.zeros_like(x) for x in eta]
    hx, hy, hz = vmodel.grid.h
    A = np.zeros((N, len(cols)), dtype=dtype)
    for k, j in enumerate(cols):
        ev[:] = 0
        ev[j] = 1
        rv[:] = 0
        fn(rx, ry, rz, ex, ey, ez, eta[0], eta[1], eta[2], vmodel.zeta,
           hx, hy, hz)
        A[:, k] = -rv
    return A


def warm():
    """Compile / load every jitted kernel once (float64 and complex128) in
    the parent, so that forked workers inherit the machine code."""
    import emg3d
    grid = emg3d.TensorMesh([np.ones(4)*10, np.ones(4)*10, np.ones(4)*10],
                            origin=(0, 0, 0))
    model = emg3d.Model(grid, 1.0, 2.0, 3.0, mu_r=1.5)
    for freq in (1.0, -1.0):
        sf = emg3d.get_source_field(
            grid, emg3d.TxElectricDipole((20, 20, 20, 30, 10)), freq)
        for lr in (0, 1, 2, 3, 4, 5, 6, 7):
            emg3d.solve(model, sf, sslsolver=False, semicoarsening=1,
                        linerelaxation=lr, maxit=1, verb=-1)
