"""Run context shared by all checks: parallel exploration, accounting,
violations / known findings / replay files, evidence."""
import fnmatch
import hashlib
import importlib
import json
import multiprocessing as mp
import os
import sys
import time
import traceback

ROOT = os.path.dirname(os.path.dirname(os.path.abspath(__file__)))
KNOWN = os.path.join(ROOT, 'known_findings.txt')

MAX_LINES = 25          # VIOLATION lines printed per run
MAX_PER_CLASS = 5       # replay files written per violation class


def jsonable(x):
    """Convert a case / observation to something json.dump accepts."""
    import numpy as np
    if isinstance(x, dict):
        return {str(k): jsonable(v) for k, v in x.items()}
    if isinstance(x, (list, tuple, set, frozenset)):
        return [jsonable(v) for v in x]
    if isinstance(x, np.ndarray):
        if x.size > 64:
            return {'ndarray': list(x.shape), 'dtype': str(x.dtype),
                    'sha': hashlib.sha1(np.ascontiguousarray(x)).hexdigest()}
        return jsonable(x.tolist())
    if isinstance(x, (np.integer,)):
        return int(x)
    if isinstance(x, (np.floating,)):
        return float(x)
    if isinstance(x, (complex, np.complexfloating)):
        return {'re': float(x.real), 'im': float(x.imag)}
    if isinstance(x, (np.bool_,)):
        return bool(x)
    if isinstance(x, (str, int, float, bool)) or x is None:
        return x
    return repr(x)


def load_known():
    """Parse known_findings.txt -> (open {(pid, key): text}, fixed list)."""
    opened, fixed = {}, []
    if not os.path.exists(KNOWN):
        return opened, fixed
    for line in open(KNOWN):
        line = line.strip()
        if not line or line.startswith('#'):
            continue
        kind, _, rest = line.partition(':')
        rest = rest.strip()
        toks = rest.split()
        pid = toks[0].split('=', 1)[1]
        if kind == 'open':
            key = toks[1].split('=', 1)[1]
            opened[(pid, key)] = ' '.join(toks[2:])
        elif kind == 'fixed':
            fixed.append((pid, ' '.join(toks[1:])))
    return opened, fixed


def _call(args):
    """Worker-side wrapper; an escaping exception is reported, not lost."""
    fnpath, case = args
    fn = resolve(fnpath)
    t0 = time.time()
    try:
        res = fn(case) or {}
    except BaseException as e:  # noqa
        if isinstance(e, (KeyboardInterrupt, SystemExit)):
            raise
        res = {'viol': [{
            'cls': f'exception:{type(e).__name__}',
            'what': f'unexpected {type(e).__name__}: {e}',
            'observed': traceback.format_exc()[-1500:],
        }]}
    res['_t'] = time.time() - t0
    return res


_FN_CACHE = {}


def resolve(fnpath):
    if fnpath not in _FN_CACHE:
        modname, _, name = fnpath.partition(':')
        _FN_CACHE[fnpath] = getattr(importlib.import_module(modname), name)
    return _FN_CACHE[fnpath]


class Ctx:

    def __init__(self, pid, tier, seed, jobs=None, level='model_checking',
                 budget=None, only=None):
        self.pid, self.tier, self.seed = pid, tier, seed
        self.level = level
        self.jobs = jobs or min(16, os.cpu_count() or 1)
        self.t0 = time.time()
        self.budget = budget
        self.only = set(only.split(',')) if only else None
        self.open, self.fixed = load_known()
        self.parts = {}          # name -> accounting dict
        self.viol = []           # unlisted violations
        self.known_hit = {}      # key -> count
        self.per_class = {}
        self.lines = 0
        self.assumptions = []
        self.notes = {}
        self.cap_hit = False
        self._pool = None

    # ---------------------------------------------------------------- utils
    @property
    def quick(self):
        return self.tier == 'quick'

    def elapsed(self):
        return time.time() - self.t0

    def wants(self, name):
        return self.only is None or name in self.only

    def assume(self, *texts):
        for t in texts:
            if t not in self.assumptions:
                self.assumptions.append(t)

    def log(self, *a):
        print(f"[{self.pid} {self.elapsed():6.1f}s]", *a, file=sys.stderr,
              flush=True)

    def pool(self):
        if self._pool is None:
            from . import parallel
            self._pool = parallel.Pool(self.jobs, _call)
        return self._pool

    def close(self):
        if self._pool is not None:
            self._pool.close()
            self._pool = None

    # ---------------------------------------------------------- exploration
    def explore(self, name, fnpath, cases, *, engine='E1', rule='',
                time_cap=None, chunksize=None, serial=False, exhaustive=True,
                keyfn=None, case_timeout=None):
        """Run ``fn(case)`` for every case (fork pool), aggregate.

        ``fn`` returns a dict with optional keys ``viol`` (list of dicts with
        cls/what/observed/expected), ``nontrivial`` (bool), ``outcome``
        (hashable), ``compared`` (#reference-vs-implementation comparisons),
        ``transitions`` (#steps; default 1) and ``count`` (dict of counters).
        Returns the list of result dicts (same order as cases; None for
        cases not run because the time cap was hit).
        """
        cases = list(cases)
        part = self.parts.setdefault(name, {
            'engine': engine, 'rule': rule, 'cases': 0, 'run': 0,
            'transitions': 0, 'compared': 0, 'nontrivial': 0,
            'outcomes': set(), 'violations': 0, 'known': 0, 'count': {},
            'samples': [], 'exhaustive': exhaustive, 'cap_hit': False,
            'wall_s': 0.0, 'max_case_s': 0.0})
        part['cases'] += len(cases)
        t0 = time.time()
        results = [None] * len(cases)
        if not cases:
            return results
        args = [(fnpath, c) for c in cases]
        deadline = t0 + time_cap if time_cap else None
        if serial or self.jobs == 1 or len(cases) == 1:
            def it_serial():
                for i, a in enumerate(args):
                    if deadline and time.time() > deadline:
                        return
                    yield i, _call(a)
            it = it_serial()
        else:
            cs = chunksize or max(1, min(64, len(cases) // (self.jobs * 8)))
            it = self.pool().imap(args, chunksize=cs, deadline=deadline,
                                  case_timeout=case_timeout or
                                  max(300, 2*(time_cap or 0)))
        nseen = 0
        for i, res in it:
            nseen += 1
            results[i] = res
            part['run'] += 1
            part['transitions'] += int(res.get('transitions', 1))
            part['compared'] += int(res.get('compared', 0))
            part['max_case_s'] = max(part['max_case_s'], res.get('_t', 0))
            if res.get('nontrivial', True):
                part['nontrivial'] += 1
            if res.get('outcome') is not None:
                part['outcomes'].add(res['outcome'])
            for k, v in (res.get('count') or {}).items():
                part['count'][k] = part['count'].get(k, 0) + v
            if len(part['samples']) < 3 and (i % max(1, len(cases)//3) == 0):
                part['samples'].append(jsonable(cases[i]))
            for v in res.get('viol') or []:
                self._violation(name, fnpath, cases[i], v, part)
        if nseen < len(cases):
            part['cap_hit'] = True
            part['exhaustive'] = False
            self.cap_hit = True
            self.log(f"{name}: time cap {time_cap}s hit after {nseen} of "
                     f"{len(cases)} cases")
        part['wall_s'] += time.time() - t0
        self.log(f"{name}: {part['run']}/{part['cases']} cases, "
                 f"{part['violations']} violations, {part['known']} known, "
                 f"{len(part['outcomes'])} outcomes, "
                 f"{time.time()-t0:.1f}s (max case {part['max_case_s']:.2f}s)")
        return results

    def account(self, name, *, engine='E1', rule='', states=0, transitions=0,
                compared=0, nontrivial=0, outcomes=(), samples=(),
                exhaustive=True, count=None):
        """Accounting for explorations that do not go through explore()."""
        part = self.parts.setdefault(name, {
            'engine': engine, 'rule': rule, 'cases': 0, 'run': 0,
            'transitions': 0, 'compared': 0, 'nontrivial': 0,
            'outcomes': set(), 'violations': 0, 'known': 0, 'count': {},
            'samples': [], 'exhaustive': exhaustive, 'cap_hit': False,
            'wall_s': 0.0, 'max_case_s': 0.0})
        part['cases'] += states
        part['run'] += states
        part['transitions'] += transitions
        part['compared'] += compared
        part['nontrivial'] += nontrivial
        part['outcomes'].update(outcomes)
        part['exhaustive'] = part['exhaustive'] and exhaustive
        if not exhaustive:
            part['cap_hit'] = True
            self.cap_hit = True
        for s in samples:
            if len(part['samples']) < 3:
                part['samples'].append(jsonable(s))
        for k, v in (count or {}).items():
            part['count'][k] = part['count'].get(k, 0) + v
        return part

    # ----------------------------------------------------------- violations
    def violation(self, name, fnpath, case, v):
        """Report a violation found in the parent process."""
        part = self.account(name)
        self._violation(name, fnpath, case, v, part)

    def _violation(self, name, fnpath, case, v, part):
        cls = str(v.get('cls', 'violation'))
        # known (open) finding?
        for (pid, key), text in self.open.items():
            if pid == self.pid and fnmatch.fnmatchcase(cls, key):
                part['known'] += 1
                if key not in self.known_hit:
                    print(f"KNOWN-FINDING: property={self.pid} {text} "
                          f"[key={key}]", flush=True)
                self.known_hit[key] = self.known_hit.get(key, 0) + 1
                return
        part['violations'] += 1
        rec = {
            'property': self.pid, 'exploration': name, 'fn': fnpath,
            'case': jsonable(case), 'class': cls,
            'what': v.get('what', ''), 'observed': jsonable(v.get('observed')),
            'expected': jsonable(v.get('expected')), 'seed': self.seed,
            'tier': self.tier,
            'how_to_replay': f"./check {self.pid} --replay <this file>",
        }
        self.viol.append(rec)
        n = self.per_class.get(cls, 0)
        self.per_class[cls] = n + 1
        if n >= MAX_PER_CLASS or self.lines >= MAX_LINES:
            return
        h = hashlib.sha1(json.dumps([name, rec['case'], cls],
                                    sort_keys=True).encode()).hexdigest()[:10]
        d = os.path.join(os.environ.get('VERIF_REPLAY_DIR') or
                         os.path.join(ROOT, 'replays'), self.pid)
        os.makedirs(d, exist_ok=True)
        safe = ''.join(c if c.isalnum() or c in '-_.' else '_'
                       for c in cls)[:60]
        path = os.path.join(d, f"{safe}-{h}.json")
        with open(path, 'w') as f:
            json.dump(rec, f, indent=1)
        print(f"VIOLATION property={self.pid} replay={path}", flush=True)
        print(f"  class={cls} :: {rec['what']}"[:400], flush=True)
        self.lines += 1

    # ------------------------------------------------------------- evidence
    def coverage(self):
        parts = {}
        states = trans = comp = nontriv = 0
        outcomes = 0
        samples = []
        exhaustive = True
        rules = []
        for name, p in self.parts.items():
            parts[name] = {
                'engine': p['engine'], 'rule': p['rule'],
                'cases_generated': p['cases'], 'cases_run': p['run'],
                'transitions': p['transitions'],
                'reference_comparisons': p['compared'],
                'nontrivial': p['nontrivial'],
                'distinct_outcomes': len(p['outcomes']),
                'violations': p['violations'],
                'known_findings_reproduced': p['known'],
                'exhaustive': p['exhaustive'] and not p['cap_hit']
                and p['run'] == p['cases'],
                'cap_hit': p['cap_hit'], 'wall_s': round(p['wall_s'], 2),
                'counters': p['count'],
            }
            states += p['run']
            trans += p['transitions']
            comp += p['compared']
            nontriv += p['nontrivial']
            outcomes += len(p['outcomes'])
            exhaustive = exhaustive and parts[name]['exhaustive']
            for s in p['samples'][:2]:
                samples.append({'exploration': name, 'case': s})
            if p['rule']:
                rules.append(f"{name}: {p['rule']}")
        cov = {
            'states': states, 'transitions': trans,
            'traces_validated_against_impl': comp,
            'evaluations': states, 'distinct_nontrivial': nontriv,
            'distinct_outcomes': outcomes,
            'rule': ' | '.join(rules),
            'samples': samples[:12] or ['(none)'],
            'exhaustive': bool(exhaustive), 'cap_hit': self.cap_hit,
            'explorations': parts,
            'known_findings_reproduced': dict(self.known_hit),
        }
        cov.update(self.notes)
        return cov

    def write_evidence(self, error=False):
        ev = {
            'property_id': self.pid, 'tier': self.tier, 'seed': self.seed,
            'level': self.level, 'coverage': self.coverage(),
            'assumptions': self.assumptions,
            'wall_s': round(self.elapsed(), 2),
            'violations': len(self.viol),
        }
        if error:
            ev['coverage']['check_error'] = True
        d = os.environ.get('VERIF_EVIDENCE_DIR') or os.path.join(
            ROOT, 'evidence')
        os.makedirs(d, exist_ok=True)
        with open(os.path.join(d, f'{self.pid}.json'), 'w') as f:
            json.dump(ev, f, indent=1, sort_keys=True)
        return ev

    def finish(self):
        self.close()
        ev = self.write_evidence()
        c = ev['coverage']
        print(f"{self.pid} tier={self.tier} seed={self.seed} "
              f"states={c['states']} transitions={c['transitions']} "
              f"validated={c['traces_validated_against_impl']} "
              f"nontrivial={c['distinct_nontrivial']} "
              f"outcomes={c['distinct_outcomes']} "
              f"exhaustive={c['exhaustive']} violations={len(self.viol)} "
              f"known={sum(self.known_hit.values())} "
              f"wall={ev['wall_s']}s", flush=True)
        if len(self.viol) > self.lines:
            print(f"({len(self.viol) - self.lines} further violations not "
                  f"written out; classes: {self.per_class})")
        return 1 if self.viol else 0


def replay(mod, ctx, rec):
    """Re-run one recorded case without the explorer."""
    ctx.jobs = 1
    if hasattr(mod, 'prepare'):
        mod.prepare(ctx)
    res = _call((rec['fn'], rec['case']))
    viol = res.get('viol') or []
    print(json.dumps(jsonable({k: v for k, v in res.items() if k != 'viol'}),
                     indent=1)[:3000])
    for v in viol:
        print(f"VIOLATION property={ctx.pid} replay=(replayed) "
              f"class={v.get('cls')} :: {v.get('what')}")
        if v.get('observed') is not None:
            print("  observed:", json.dumps(jsonable(v['observed']))[:1500])
        if v.get('expected') is not None:
            print("  expected:", json.dumps(jsonable(v['expected']))[:1500])
    if not viol:
        print(f"replay of {rec.get('class')}: no violation")
    return 1 if viol else 0
