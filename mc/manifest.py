"""Generates /verif/MANIFEST.json from the table below (python -m mc.manifest)."""
import json
import os

ROOT = os.path.dirname(os.path.dirname(os.path.abspath(__file__)))

# pid -> (engine, category, technique, level text, level note, design ref)
CHECKS = {
    'C01': ('E1+E4', 'model_checking',
            'bounded exhaustive enumeration of solver configurations on the '
            'real solve() (full core product + deviation-bounded lattice) '
            'and of all environment scripts of a scripted SciPy Krylov '
            'routine; residual recomputed with a reference FIT operator',
            'Full product cycle x sslsolver x semicoarsening x '
            'linerelaxation (1120 configurations) per grid x model, all '
            'configurations with <= 1 (quick) / <= 2 (thorough) deviations '
            'over 17 option domains, the full product source kind x '
            'caller-supplied-field kind, and all Krylov scripts over {step '
            'with/without callback, preconditioner call} x {return 0, '
            'maxiter, breakdown} up to length 4/6. Every success report is '
            'certified against an independently assembled operator. '
            'Added: weak sources (amplitude 1e-13) and all histories <= 3/4 of solves on ONE Model object edited in between (certificate against the model as it is then).',
            'Trusted: mc/refmodel/fit.py (validated against amat_x by C02), '
            'SciPy sparse LU. Grids <= 8^3; value alphabets; 1e-3 slack on '
            'the certificate.', '3/C01'),
    'C02': ('E1', 'model_checking',
            'bounded exhaustive enumeration of grid shapes/configurations; '
            'full unit-basis application of the real kernel vs. reference '
            'FIT assembly',
            'Every shape in {2..4}^3 (+5-containing; thorough {2..5}^3) x 4 '
            'width profiles x 4 anisotropy cases x mu_r x eps_r x real/complex'
            ' s is enumerated; for each the complete matrix of the compiled '
            'amat_x is compared entry-wise with an independent sparse FIT '
            'assembly. Linearity makes the full basis a statement about all '
            'fields on that grid/model. '
            'Added: all frequency sequences <= 3/4 of VolumeModels built from one model/grid object (TensorMesh and BaseMesh), all kept alive, checked after all were built.',
            'Trusted: mc/refmodel/fit.py (150 lines, from widths only), '
            'NumPy/SciPy. Continuous inputs from finite alphabets; shapes '
            'bounded.', '3/C02'),
    'C03': ('E1', 'model_checking',
            'bounded exhaustive enumeration of shapes x models x smoother '
            'codes x sweep counts; full unit bases through the real '
            'smoother give M and N of S(x,b)=Mx+Nb, checked against the '
            'reference operator (M + N A = I)',
            'All shapes {2,3,4}^3 (+5-containing, thorough) x stretched '
            'widths x 4 (8) models x real/complex x lr 0..7 x nu 1..4. '
            'M + N A_ref = I decides "every exact solution is a fixed '
            'point" for all solutions at once; plus affinity, zero residual '
            'of the last relaxed block, untouched boundary sentinels, '
            'compiled-vs-source kernels, and the banded solver for all '
            'sizes n <= 14 (40). '
            'The memory layout of the field data rotates over contiguous / strided / column / real-view.',
            'Trusted: reference FIT operator (validated by C02), '
            'numpy.linalg. The last block is identified up to sweep '
            'orientation (one of the corner blocks).', '3/C03'),
    'C04': ('E1', 'model_checking',
            'bounded exhaustive enumeration of coarsening patterns x fine '
            'shapes x widths; full fine basis through restriction(), full '
            'coarse basis through prolongation(); matrices compared with '
            'each other and a node-coordinate reference',
            'All 7 patterns x all admissible shapes (coarsened directions '
            '4,6(,8), others 2..5) x stretched width profiles. R and P are '
            'obtained completely, so R = P^T, P >= 0, partition of unity, '
            'P = reference interpolation hold for every field on these '
            'grids; coarse nodes, summed material parameters, additive '
            'boundary-preserving prolongation are checked per case. A '
            'second exploration applies restriction() over up to 3 levels '
            'for all 4 anisotropy cases x mu_r x epsilon_r x 12 pattern '
            'sequences and compares every coarse eta/zeta with the summed '
            'children of a checker-side fine-level definition; all patterns '
            'are repeated on grids far from the origin and with tiny / '
            'huge cells (translation invariance).',
            'Trusted: 40-line reference prolongation (linear in node '
            'coordinates). Shapes bounded.', '3/C04'),
    'C05': ('E1+E4', 'model_checking',
            'exhaustive enumeration of grid shapes x cycle/semicoarsening/'
            'line-relaxation/clevel/nu settings x scripted residual '
            'answers, on the real control code with recorder leaves; traces '
            'compared with a reference model of the hierarchy and V/W/F '
            'recursion; conformance re-run with real numerics',
            'Quick: all 512 shapes in {2..9}^3 x 39 single deviations, all '
            'pairs of deviations on representative shapes, real-numerics '
            'conformance on {2..4}^3. Thorough: all 59319 shapes 2..40 per '
            'cycle type and one direction up to 1024. Every run compares '
            'kernel dispatch, transfers (hierarchy), log events, per-cycle '
            'digits, QC figure, header and termination with the reference. '
            'Preconditioner mode: a scripted Krylov routine applies the '
            'multigrid preconditioner 4 times; the kernel and transfer '
            'traces of all calls must follow the digits cycling once per '
            'fine-grid cycle across calls.',
            'Trusted: mc/refmodel/mgcycle.py (textbook recursion). The '
            'stubbing is validated by identical traces with real kernels '
            'on small shapes.', '3/C05'),
    'C07': ('E1', 'model_checking',
            'bounded exhaustive enumeration of simulation configurations '
            '(full product mapping x anisotropy + deviation-bounded '
            'lattice); all gradient entries compared with an exact discrete '
            'reference derivative; finite differences of the real misfit '
            'bind the reference to the code',
            'Full product 6 mappings x 4 cases plus all configurations with '
            '<= 1 (quick) / <= 2 (thorough) deviations over grid, source '
            'type, receiver type, relative receivers, #sources, '
            '#frequencies, NaN pattern, noise form, strength. The gradient '
            'is a vector and the directional derivative is linear in the '
            'direction, so agreement of all entries (1e-8) is agreement for '
            'every perturbation direction; FD (two steps, second order) on '
            'a covering subset; real-solver subset with tol 1e-11; the '
            'gradient is re-read after jvec(v) and jtvec(w) on the same '
            'object.',
            'Trusted: reference FIT operator (C02), sparse LU; sources and '
            'receiver sampling are emg3d forward code used as linear maps '
            '(C09/C10). Bulk in exact-solve mode (assume/guarantee with '
            'C01/C02).', '3/C07'),
    'C08': ('E1', 'model_checking',
            'bounded exhaustive enumeration of problems x gridding modes x '
            'execution modes; real jvec on the full model basis and real '
            'jtvec on the full (complex) data basis give the complete '
            'matrices J and T; matrix identities',
            'For every problem (4 anisotropy/mapping/source/receiver '
            'combinations) x gridding in {same, single, frequency, source, '
            'both, input (same number of cells, other widths), dict (mixed '
            'grids per source/frequency)} x {memory, file_dir}: T = [Re '
            'J^T, Im J^T] decides Re<w,Jv> = <J^T w,v> for ALL v, w; '
            'gridding same: J equals the exact reference Jacobian; '
            'jtvec(weighted residual) = gradient; stored residual and '
            'gradient unchanged after jtvec of arbitrary vectors.',
            'Model grid 4^3, computational grids 8^3; exact-solve mode '
            '(1e-8) plus real-solver subset (2e-6).', '3/C08'),
    'C06': ('E1', 'exploration',
            'complete enumeration of a finite deterministic configuration '
            'set (sizes x cycles x media x domains x smoothing counts); '
            'measured reduction factors against calibrated bounds',
            'Stand-alone multigrid on uniform grids 8^3..32^3 (thorough: '
            '64^3, 128^3 and non-cubic shapes) for cycle F/V/W x isotropic / '
            'triaxial (+ HTI, VTI 1:2) x frequency / Laplace x (nu_pre, '
            'nu_post): rate(n) <= '
            '2.5 rate(16^3) + 0.05, rate <= 1.5 x pinned, cycles <= pinned '
            '+ 3, exit 0. A measurement against thresholds calibrated on the '
            'pinned tree (mc/checks/c06_table.json), not an invariant: '
            'claimed as exploration.',
            'Trusted: the calibration table (pinned tree, 1.5x margin).',
            '3/C06'),
    'C09': ('E1', 'model_checking',
            'bounded exhaustive enumeration of receiver / source positions '
            'x orientations on small stretched grids; full edge basis '
            'through the real get_receiver vs real point-source vectors vs '
            'independent trilinear / Faraday references; all ordered pairs '
            'for reciprocity',
            'Position alphabet {node, centre, 0.3 cell} per axis over all '
            'interior cells x 30 angle pairs x 2 grids; the receiver '
            'functional is obtained completely (full basis), so the '
            'transpose identity holds for all fields; NaN policy on 2744 '
            'positions per case incl. one ulp either side of the node '
            'planes; reciprocity for all ordered pairs of 30 antennas x '
            'models x {E-E, H-H} in exact mode, plus real-solver subset with '
            'an a-posteriori residual bound; one call with several '
            'orientations (all pairs, triples, sign-restricted sets); all '
            'sequences <= 3 of get_magnetic_field calls with different '
            'frequencies on one Model object.',
            'Trusted: own trilinear weights, reference curl (fit.py), '
            'sparse LU. mu_r != 1 magnetic sources are outside the '
            'property (documented as not implemented).', '3/C09'),
    'C10': ('E1', 'model_checking',
            'bounded exhaustive enumeration of electrode positions: all '
            'ordered pairs of a position alphabet as dipoles, all simple '
            'paths as wires, point sources over position x angle alphabets; '
            'oracle from own segment/cell clipping',
            'Quick: 19.5k dipoles, 22k wires, 5.8k points, conversions, '
            'magnetic loops on two stretched grids x strengths x '
            'frequency/Laplace/None: component sums = electrode vector, '
            'support within touched cells, length-fraction distribution, '
            'field = vector x strength x (-s mu0), conversion round trips, '
            'loop geometry. '
            'Added: a grid far from the origin (UTM-like) in all alphabets; one TensorMesh object used, moved in place and used again.',
            'Trusted: own Liang-Barsky clipping and trilinear weights. '
            'Position/angle alphabets.', '3/C10'),
    'C11': ('E3', 'model_checking',
            'stateless DFS over ALL completion orders of the tasks of a '
            'process_map call on a virtual process pool (model of '
            'concurrent.futures semantics), per max_workers / run kind / '
            'file mode / backend, every schedule a complete run of the real '
            'Simulation code; conformance runs on real process pools with '
            'forced completion orders',
            'For max_workers in {1,2,3,4,16} (thorough 1..16) x {forward, '
            'back-propagation, jvec} x {memory, file_dir} x {tqdm, plain}: '
            'all feasible completion orders (up to 24 for 4 tasks, 720 for '
            '6) of the varied call, the full product over all calls for '
            'max_workers=2; oracle: bit-identity of all fields, data, '
            'misfit, gradient, jvec with the sequential run, after '
            'repeating the computation and after clean + compute on the '
            'same object (forward and adjoint tolerances differ).',
            'Trusted: mc/refmodel/executor.py (pool model; tasks share one '
            'interpreter: over-approximation). Real pools only on forced '
            'orders of 4 tasks.', '3/C11'),
    'C12': ('E2', 'model_checking',
            'explicit-state breadth-first search over all operation '
            'histories up to a depth (30 operations) with canonical-state '
            'merging; fresh real Simulation per history; differential '
            'oracle against a freshly created simulation',
            'Quick: all histories of depth <= 3 (P1, memory), <= 2 (P2 '
            'triaxial LgConductivity; P1 file_dir) over {compute, misfit, '
            'gradient, jvec, jtvec, get_efield, get_hfield, clean x3, copy '
            'x4, dict x4, file x9, model update (new object / in place), '
            'noise assignment, reading all public attributes}, and depth '
            '<= 2 on a problem with a user-given computational grid; every '
            'history is closed '
            'by the probes synthetic/misfit/gradient; copies and reloads '
            'continue after their original was mutated and wiped. Thorough: '
            'one level deeper.',
            'State merging is sound if the canonical key covers everything '
            'the methods read (enumerated from the source). Histories '
            'bounded; of in-place edits only the model overwrite is in the '
            'alphabet.',
            '3/C12'),
    'C13': ('E1+E2', 'model_checking',
            'full product of survey shapes x noise forms x NaN masks '
            'against a NumPy reference of the noise model (E1) and BFS over '
            'operation histories on real Surveys with a last-assigned-'
            'values record (E2)',
            '8748 formula cases (27 shapes x 6x6 noise forms x std modes x '
            'NaN masks, misfit through the real Simulation.misfit, all axis '
            'permutations) and all histories up to depth 3 (20 operations: '
            'add_noise variants, select subsets, copy, dict and h5/npz/json '
            'round trips, assignments) from three start states; after '
            'every step noise settings of the survey and of every original '
            'it derives from equal the last assigned values. Histories on '
            'a real Simulation (misfit, assignments of noise_floor / '
            'relative_error / standard_deviation, clean x3; depth 3/4 + '
            'closing probe): a misfit evaluated from scratch follows the '
            'settings in force.',
            'Trusted: mc/refmodel/noise.py. Randomness seeded through '
            'numpy.random.default_rng.', '3/C13'),
    'C14': ('E1', 'model_checking',
            'full products over conductivities x mappings x anisotropy x '
            'mu_r/eps_r x domain; rejection table; solver/simulation '
            'invariance across all six mappings',
            '49 conductivities over 12 decades x 6 mappings (round trips, '
            'analytic and difference-quotient chain rule), 9600 VolumeModel '
            'coefficient comparisons against widths/constants, 4434 '
            'rejection-table entries (construction and assignment, all bad '
            'value tokens, incl. augmented / in-place assignment), fields/'
            'data/gradient equal across mappings and equal to a direct '
            'solve of the reference operator, and the automatic gridding '
            'inputs and meshes equal across mappings for models that are '
            'heterogeneous within their outer faces. '
            'Added: 7 representations of the same parameters (dtypes, order, list, view).',
            'Trusted: analytic mappings, reference FIT operator.', '3/C14'),
    'C15': ('E1', 'model_checking',
            'all ordered pairs of 1-D node sets (all subsets of a lattice) '
            'through the real 3-D routine per direction, 3-D products of '
            'selected pairs; full unit bases give the complete averaging '
            'matrix',
            '14400 ordered pairs of the 120 node subsets of {0..6} in each '
            'direction + 1728 3-D products: F equals the exact overlap '
            'reference, rows convex, integral conserved, identity, equals '
            'discretize.volume_average, the adjoint routine equals F^T; log '
            'mode consistency; Model.interpolate_to_grid across mappings; '
            'gradient of a real Simulation with a user-given computational '
            'grid (same shape / finer / coarser / equal) = F_ref^T x '
            'gradient on that grid, summed over sources and frequencies. '
            'Added: lattice pairs at UTM-like origins incl. equal-width grids shifted by one cell (maps.interpolate and Model.interpolate_to_grid); sequences of adjoint calls for grids sharing shape and origin.',
            'Trusted: mc/refmodel/volavg.py (two formulations '
            'cross-checked).', '3/C15'),
    'C16': ('E1', 'model_checking',
            'deviation-bounded lattice (depth 3/4) and sub-products over '
            'the 15 parameters of origin_and_widths, format lattice of '
            'construct_mesh, estimate_gridding_opts cases; postconditions '
            'recomputed from the documented definitions',
            '14.9k quick cases (12.9k meshes, 0.9k loud failures, 1.1k '
            'documented rejections): permitted cell count, positive widths, '
            'survey and computational domain covered, stretching bounds, '
            'centre rule, vector nodes, sea surface node-or-warning, '
            'failure => RuntimeError only, plus a converse guard (no '
            'failure when an admissible mesh provably exists).',
            'Trusted: own skin-depth/wavelength/cell-number definitions '
            'from the docstrings; documented relaxations listed in the '
            'module.', '3/C16'),
    'C17': ('E1+E2', 'model_checking',
            'object zoo (every registered class x variants) x formats, and '
            'all conversion chains up to a length from every initial '
            'format; structural, attribute-view and behavioural equality',
            '182 objects (incl. simulations with user-given grids, every '
            'numeric dtype family in both widths, infinities) x {h5, npz, '
            'json} (+ to_file/from_file) and all 4368 convert chains of '
            'length 3; content compared after every '
            'step (classes, keys, shapes, dtypes, values NaN-aware, scalar '
            'kinds), __eq__, and misfit/gradient of reloaded simulations.',
            'Python and NumPy scalars of the same kind, and 0-d arrays, '
            'count as equal scalars. Three open findings (npz empty dicts, '
            'json zero-size arrays, receiver-less survey).', '3/C17'),
    'C18': ('E1', 'model_checking',
            'lattice over all 58 documented configuration keys (every key '
            'alone with every value; pairs in thorough) and flags, CLI run '
            'in-process vs checker-built equivalent API sequence',
            'Every documented key x 1-3 values x function x format '
            '(rotated; dry runs in all three formats), dry-run+save '
            'comparison of the saved simulation, '
            'precedence for all 9 options available both ways, unknown '
            'keys/flags rejected in all 7 sections, load/save/cache/clean '
            'sequences; data, misfit, gradient, n_observations equal to '
            '1e-12 with identical NaN pattern. The key table is parsed from '
            'docs/manual/cli.rst at start.',
            'Seams: seeded default_rng, in-process pool stand-in, memoised '
            'Report. Reference = typed reading of the documented syntax.',
            '3/C18'),
    'C19': ('E1', 'model_checking',
            'deviation-bounded lattice (depth 2/3) over 17 parameters of '
            'layered simulations; responses vs direct empymod calls, '
            'extraction weights vs own ellipse reference, FD gradient vs '
            'fresh perturbed simulations',
            '808 forward cases (6192 src-rec pairs) to 1e-10, NaN pattern, '
            'independence of method/ellipse, 72k extractions (imat >= 0, '
            'sum 1, support; also on models whose properties change at '
            'different interfaces, merged and unmerged), 91 gradient cases '
            'per z-cell slab (1e-6 in conductivity).',
            'Trusted: empymod as the 1D reference modeller (per the '
            'property), own layering read-off.', '3/C19'),
    'C20': ('E1', 'model_checking',
            'full product time vectors x bands (incl. fmin/fmax exactly on '
            'required frequencies) x signals x transforms x coarse options '
            'x spectra; setter histories up to length 2',
            '8019 fill cases (98k spectra, 42k transforms): partition, '
            'band, pass-through (bit-identical), spline / PCHIP references, '
            'zeros above fmax, monotone extrapolation, freq2time bit-'
            'identical to empymod.model.tem of the filled spectrum; '
            'exclusivity warning; 420 setter sequences equal fresh objects. '
            'Added: the object is used between setter calls and returned arrays are kept; two instances created with one ftarg dict.',
            'Trusted: empymod.utils.check_time / model.tem as reference '
            'transform (per the property).', '3/C20'),
}

NOT_YET = "check not built yet in this round (planned in DESIGN.md section 3)"


def build():
    props = [json.loads(x)['id'] for x in
             open(os.path.join(ROOT, 'properties.jsonl'))]
    checks, na = [], []
    for pid in props:
        if pid not in CHECKS:
            na.append({'property_id': pid, 'reason': NOT_YET})
            continue
        eng, cat, tech, text, note, ref = CHECKS[pid]
        checks.append({
            'property_id': pid,
            'quick_cmd': f'./check {pid} --tier quick',
            'thorough_cmd': f'./check {pid} --tier thorough',
            'evidence_file': f'/verif/evidence/{pid}.json',
            'replay_cmd_template': f'./check {pid} --replay {{path}}',
            'engine': eng,
            'level_claimed': {'category': cat, 'text': text,
                              'design_ref': f'DESIGN.md section {ref}'},
            'level_note': note,
            'technique': tech,
        })
    man = {
        'version': 1,
        'setup_cmd': 'cd /verif && /venv/bin/python -m mc.selftest',
        'hooks': {
            'guard': 'EMG3D_VERIF',
            'enable': 'no hooks exist in /repo: all seams are injected from '
                      'the checker process by replacing module attributes '
                      '(DESIGN.md 1.4); the guard is declared but unused',
            'baseline_off_cmd':
                'cd /repo && /venv/bin/python -m pytest -ra -q -p '
                'no:cacheprovider --timeout=900 '
                '--continue-on-collection-errors',
            'source_commits': [],
            'add_only': True,
        },
        'engines': [
            {'name': 'E1', 'path': 'mc/space.py, mc/context.py',
             'serves_properties': [p for p in CHECKS
                                   if 'E1' in CHECKS[p][0]],
             'kind_free_text': 'bounded exhaustive input/configuration '
             'enumeration (full products, deviation-bounded lattices) '
             'against the real code with reference-model oracles'},
            {'name': 'E2', 'path': 'mc/explore.py',
             'serves_properties': [p for p in CHECKS
                                   if 'E2' in CHECKS[p][0]],
             'kind_free_text': 'explicit-state BFS over operation histories '
             'on fresh real objects with canonical state hashing'},
            {'name': 'E3', 'path': 'mc/refmodel/executor.py',
             'serves_properties': [p for p in CHECKS
                                   if 'E3' in CHECKS[p][0]],
             'kind_free_text': 'stateless DFS over completion schedules of '
             'a virtual process pool'},
            {'name': 'E4', 'path': 'mc/checks (scripts)',
             'serves_properties': [p for p in CHECKS
                                   if 'E4' in CHECKS[p][0]],
             'kind_free_text': 'enumeration of environment scripts '
             '(scripted Krylov routine, scripted residual norms)'},
        ],
        'checks': checks,
        'not_applicable': na,
        'notes': 'Interpreter /venv/bin/python imports emg3d from /repo '
                 '(editable install); numba recompiles changed kernels, so '
                 'every check runs the current working tree.',
    }
    with open(os.path.join(ROOT, 'MANIFEST.json'), 'w') as f:
        json.dump(man, f, indent=1)
    return man


if __name__ == '__main__':
    m = build()
    print(len(m['checks']), 'checks;', len(m['not_applicable']), 'not claimed')
