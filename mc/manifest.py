"""Generates /verif/MANIFEST.json from the table below (python -m mc.manifest)."""
import json
import os

ROOT = os.path.dirname(os.path.dirname(os.path.abspath(__file__)))

# pid -> (engine, category, technique, level text, level note, design ref)
CHECKS = {
    'C01': ('E1+E4', 'model_checking',
            'bounded exhaustive enumeration of solver configurations on the '
            'real solve() (full core product + deviation-bounded lattice) '
            'and of all environment scripts of a scripted SciPy Krylov '
            'routine; residual recomputed with a reference FIT operator',
            'Full product cycle x sslsolver x semicoarsening x '
            'linerelaxation (1120 configurations) per grid x model, all '
            'configurations with <= 1 (quick) / <= 2 (thorough) deviations '
            'over 17 option domains, the full product source kind x '
            'caller-supplied-field kind, and all Krylov scripts over {step '
            'with/without callback, preconditioner call} x {return 0, '
            'maxiter, breakdown} up to length 4/6. Every success report is '
            'certified against an independently assembled operator.',
            'Trusted: mc/refmodel/fit.py (validated against amat_x by C02), '
            'SciPy sparse LU. Grids <= 8^3; value alphabets; 1e-3 slack on '
            'the certificate.', '3/C01'),
    'C02': ('E1', 'model_checking',
            'bounded exhaustive enumeration of grid shapes/configurations; '
            'full unit-basis application of the real kernel vs. reference '
            'FIT assembly',
            'Every shape in {2..4}^3 (+5-containing; thorough {2..5}^3) x 4 '
            'width profiles x 4 anisotropy cases x mu_r x eps_r x real/complex'
            ' s is enumerated; for each the complete matrix of the compiled '
            'amat_x is compared entry-wise with an independent sparse FIT '
            'assembly. Linearity makes the full basis a statement about all '
            'fields on that grid/model.',
            'Trusted: mc/refmodel/fit.py (150 lines, from widths only), '
            'NumPy/SciPy. Continuous inputs from finite alphabets; shapes '
            'bounded.', '3/C02'),
    'C03': ('E1', 'model_checking',
            'bounded exhaustive enumeration of shapes x models x smoother '
            'codes x sweep counts; full unit bases through the real '
            'smoother give M and N of S(x,b)=Mx+Nb, checked against the '
            'reference operator (M + N A = I)',
            'All shapes {2,3,4}^3 (+5-containing, thorough) x stretched '
            'widths x 4 (8) models x real/complex x lr 0..7 x nu 1..4. '
            'M + N A_ref = I decides "every exact solution is a fixed '
            'point" for all solutions at once; plus affinity, zero residual '
            'of the last relaxed block, untouched boundary sentinels, '
            'compiled-vs-source kernels, and the banded solver for all '
            'sizes n <= 14 (40).',
            'Trusted: reference FIT operator (validated by C02), '
            'numpy.linalg. The last block is identified up to sweep '
            'orientation (one of the corner blocks).', '3/C03'),
    'C04': ('E1', 'model_checking',
            'bounded exhaustive enumeration of coarsening patterns x fine '
            'shapes x widths; full fine basis through restriction(), full '
            'coarse basis through prolongation(); matrices compared with '
            'each other and a node-coordinate reference',
            'All 7 patterns x all admissible shapes (coarsened directions '
            '4,6(,8), others 2..5) x stretched width profiles. R and P are '
            'obtained completely, so R = P^T, P >= 0, partition of unity, '
            'P = reference interpolation hold for every field on these '
            'grids; coarse nodes, summed material parameters, additive '
            'boundary-preserving prolongation are checked per case.',
            'Trusted: 40-line reference prolongation (linear in node '
            'coordinates). Shapes bounded.', '3/C04'),
    'C05': ('E1+E4', 'model_checking',
            'exhaustive enumeration of grid shapes x cycle/semicoarsening/'
            'line-relaxation/clevel/nu settings x scripted residual '
            'answers, on the real control code with recorder leaves; traces '
            'compared with a reference model of the hierarchy and V/W/F '
            'recursion; conformance re-run with real numerics',
            'Quick: all 512 shapes in {2..9}^3 x 39 single deviations, all '
            'pairs of deviations on representative shapes, real-numerics '
            'conformance on {2..4}^3. Thorough: all 59319 shapes 2..40 per '
            'cycle type and one direction up to 1024. Every run compares '
            'kernel dispatch, transfers (hierarchy), log events, per-cycle '
            'digits, QC figure, header and termination with the reference.',
            'Trusted: mc/refmodel/mgcycle.py (textbook recursion). The '
            'stubbing is validated by identical traces with real kernels '
            'on small shapes.', '3/C05'),
    'C07': ('E1', 'model_checking',
            'bounded exhaustive enumeration of simulation configurations '
            '(full product mapping x anisotropy + deviation-bounded '
            'lattice); all gradient entries compared with an exact discrete '
            'reference derivative; finite differences of the real misfit '
            'bind the reference to the code',
            'Full product 6 mappings x 4 cases plus all configurations with '
            '<= 1 (quick) / <= 2 (thorough) deviations over grid, source '
            'type, receiver type, relative receivers, #sources, '
            '#frequencies, NaN pattern, noise form, strength. The gradient '
            'is a vector and the directional derivative is linear in the '
            'direction, so agreement of all entries (1e-8) is agreement for '
            'every perturbation direction; FD (two steps, second order) on '
            'a covering subset; real-solver subset with tol 1e-11.',
            'Trusted: reference FIT operator (C02), sparse LU; sources and '
            'receiver sampling are emg3d forward code used as linear maps '
            '(C09/C10). Bulk in exact-solve mode (assume/guarantee with '
            'C01/C02).', '3/C07'),
    'C08': ('E1', 'model_checking',
            'bounded exhaustive enumeration of problems x gridding modes x '
            'execution modes; real jvec on the full model basis and real '
            'jtvec on the full (complex) data basis give the complete '
            'matrices J and T; matrix identities',
            'For every problem (4 anisotropy/mapping/source/receiver '
            'combinations) x gridding in {same, single, frequency, source, '
            'both} x {memory, file_dir}: T = [Re J^T, Im J^T] decides '
            'Re<w,Jv> = <J^T w,v> for ALL v, w; gridding same: J equals the '
            'exact reference Jacobian; jtvec(weighted residual) = gradient.',
            'Model grid 4^3, computational grids 8^3; exact-solve mode '
            '(1e-8) plus real-solver subset (2e-6).', '3/C08'),
}

NOT_YET = "check not built yet in this round (planned in DESIGN.md section 3)"


def build():
    props = [json.loads(x)['id'] for x in
             open(os.path.join(ROOT, 'properties.jsonl'))]
    checks, na = [], []
    for pid in props:
        if pid not in CHECKS:
            na.append({'property_id': pid, 'reason': NOT_YET})
            continue
        eng, cat, tech, text, note, ref = CHECKS[pid]
        checks.append({
            'property_id': pid,
            'quick_cmd': f'./check {pid} --tier quick',
            'thorough_cmd': f'./check {pid} --tier thorough',
            'evidence_file': f'/verif/evidence/{pid}.json',
            'replay_cmd_template': f'./check {pid} --replay {{path}}',
            'engine': eng,
            'level_claimed': {'category': cat, 'text': text,
                              'design_ref': f'DESIGN.md section {ref}'},
            'level_note': note,
            'technique': tech,
        })
    man = {
        'version': 1,
        'setup_cmd': 'cd /verif && /venv/bin/python -m mc.selftest',
        'hooks': {
            'guard': 'EMG3D_VERIF',
            'enable': 'no hooks exist in /repo: all seams are injected from '
                      'the checker process by replacing module attributes '
                      '(DESIGN.md 1.4); the guard is declared but unused',
            'baseline_off_cmd':
                'cd /repo && /venv/bin/python -m pytest -ra -q -p '
                'no:cacheprovider --timeout=900 '
                '--continue-on-collection-errors',
            'source_commits': [],
            'add_only': True,
        },
        'engines': [
            {'name': 'E1', 'path': 'mc/space.py, mc/context.py',
             'serves_properties': [p for p in CHECKS
                                   if 'E1' in CHECKS[p][0]],
             'kind_free_text': 'bounded exhaustive input/configuration '
             'enumeration (full products, deviation-bounded lattices) '
             'against the real code with reference-model oracles'},
            {'name': 'E2', 'path': 'mc/explore.py',
             'serves_properties': [p for p in CHECKS
                                   if 'E2' in CHECKS[p][0]],
             'kind_free_text': 'explicit-state BFS over operation histories '
             'on fresh real objects with canonical state hashing'},
            {'name': 'E3', 'path': 'mc/refmodel/executor.py',
             'serves_properties': [p for p in CHECKS
                                   if 'E3' in CHECKS[p][0]],
             'kind_free_text': 'stateless DFS over completion schedules of '
             'a virtual process pool'},
            {'name': 'E4', 'path': 'mc/checks (scripts)',
             'serves_properties': [p for p in CHECKS
                                   if 'E4' in CHECKS[p][0]],
             'kind_free_text': 'enumeration of environment scripts '
             '(scripted Krylov routine, scripted residual norms)'},
        ],
        'checks': checks,
        'not_applicable': na,
        'notes': 'Interpreter /venv/bin/python imports emg3d from /repo '
                 '(editable install); numba recompiles changed kernels, so '
                 'every check runs the current working tree.',
    }
    with open(os.path.join(ROOT, 'MANIFEST.json'), 'w') as f:
        json.dump(man, f, indent=1)
    return man


if __name__ == '__main__':
    m = build()
    print(len(m['checks']), 'checks;', len(m['not_applicable']), 'not claimed')
