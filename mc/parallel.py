"""A small fork pool that survives crashing and hanging cases.

multiprocessing.Pool waits forever for the result of a task whose worker died
(a break in emg3d's compiled kernels can segfault a worker), and it cannot
time out a single case.  Here the parent knows which case every worker is
running: a worker that dies or exceeds the per-case time limit is replaced and
the case is reported (`worker-died` / `case-timeout`), the other cases of its
chunk are re-queued.
"""
import multiprocessing as mp
import os
import signal
import time
from multiprocessing.connection import wait


def _worker(conn, call):
    signal.signal(signal.SIGINT, signal.SIG_IGN)
    while True:
        try:
            msg = conn.recv()
        except EOFError:
            return
        if msg is None:
            return
        gen, chunk = msg
        for i, arg in chunk:
            conn.send(('start', i, gen))
            res = call(arg)
            conn.send(('done', i, res, gen))
        conn.send(('idle', gen))


class Pool:

    def __init__(self, n, call):
        self.ctx = mp.get_context('fork')
        self.n, self.call = n, call
        self.workers = []
        self.gen = 0
        for _ in range(n):
            self._spawn()

    def _spawn(self):
        a, b = self.ctx.Pipe()
        p = self.ctx.Process(target=_worker, args=(b, self.call), daemon=True)
        p.start()
        b.close()
        w = {'proc': p, 'conn': a, 'chunk': [], 'current': None, 't0': None}
        self.workers.append(w)
        return w

    def close(self):
        for w in self.workers:
            try:
                w['conn'].send(None)
            except Exception:  # noqa
                pass
        for w in self.workers:
            w['proc'].join(0.5)
            if w['proc'].is_alive():
                w['proc'].kill()
        self.workers = []

    def imap(self, args, chunksize=1, case_timeout=600, deadline=None):
        """Yield (index, result) as results arrive.  A crashed / hung case
        yields a result dict with a violation.  ``deadline`` (absolute time):
        stop handing out new chunks after it."""
        todo = [(i, a) for i, a in enumerate(args)]
        todo.reverse()
        idle = list(self.workers)
        busy = []
        self.gen += 1
        gen = self.gen

        def give(w):
            chunk = []
            while todo and len(chunk) < chunksize:
                chunk.append(todo.pop())
            w['chunk'] = chunk
            w['current'] = None
            w['t0'] = time.time()
            w['conn'].send((gen, chunk))
            busy.append(w)

        def fail(w, cls, what):
            """Worker w is gone: report its current case, requeue the rest."""
            cur = w['current']
            rest = [c for c in w['chunk'] if c[0] != cur]
            out = None
            if cur is not None:
                out = (cur, {'viol': [{'cls': cls, 'what': what}],
                             'nontrivial': True})
            elif w['chunk']:
                # died before announcing a case: blame the first one
                cur = w['chunk'][0][0]
                rest = w['chunk'][1:]
                out = (cur, {'viol': [{'cls': cls, 'what': what}],
                             'nontrivial': True})
            for c in reversed(rest):
                todo.append(c)
            try:
                w['proc'].kill()
            except Exception:  # noqa
                pass
            w['conn'].close()
            busy.remove(w)
            self.workers.remove(w)
            idle.append(self._spawn())
            return out

        stop_new = False
        while True:
            if deadline is not None and time.time() > deadline:
                stop_new = True
            while idle and todo and not stop_new:
                give(idle.pop())
            if not busy:
                break       # all done, or deadline hit and nothing in flight
            ready = wait([w['conn'] for w in busy] +
                         [w['proc'].sentinel for w in busy], timeout=1.0)
            now = time.time()
            for w in list(busy):
                if w['conn'] in ready:
                    try:
                        while w['conn'].poll():
                            msg = w['conn'].recv()
                            if msg[-1] != gen:
                                continue        # stale (earlier imap call)
                            if msg[0] == 'start':
                                w['current'] = msg[1]
                                w['t0'] = now
                            elif msg[0] == 'done':
                                w['chunk'] = [c for c in w['chunk']
                                              if c[0] != msg[1]]
                                w['current'] = None
                                w['t0'] = now
                                yield msg[1], msg[2]
                            elif msg[0] == 'idle':
                                busy.remove(w)
                                idle.append(w)
                                break
                    except (EOFError, OSError):
                        code = w['proc'].exitcode
                        out = fail(w, 'worker-died',
                                   f'worker process died (exit code {code}) '
                                   'while running this case')
                        if out:
                            yield out
                        continue
                if w in busy and not w['proc'].is_alive():
                    code = w['proc'].exitcode
                    out = fail(w, 'worker-died',
                               f'worker process died (exit code {code}) '
                               'while running this case')
                    if out:
                        yield out
                elif w in busy and case_timeout and w['t0'] and \
                        now - w['t0'] > case_timeout:
                    out = fail(w, 'case-timeout',
                               f'case did not finish within {case_timeout} s '
                               '(hang or non-terminating loop)')
                    if out:
                        yield out
