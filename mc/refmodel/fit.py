"""Reference finite-integration (Yee / FIT) discretisation, written from the
grid widths only.  Shares no code with emg3d.core.

Edge ordering = emg3d.fields.Field: [ex.ravel('F'), ey.ravel('F'),
ez.ravel('F')] with ex of shape (nx, ny+1, nz+1), ey (nx+1, ny, nz+1),
ez (nx+1, ny+1, nz).

    A = Cv^T diag(Mf) Cv + s mu0 diag(Me)

with Cv = diag(1/area) C diag(length) the curl acting on edge *values*,
Mf = two-cell average of V/mu_r on faces, Me = four-cell average of
V (sigma_dir + s eps0 eps_r) on edges.  emg3d's system is  A e = s_field with
s_field = -s mu0 J  (amat_x subtracts A e from the source).
"""
import numpy as np
import scipy.sparse as sp
from scipy.constants import mu_0, epsilon_0


def _D(n):
    """1-D difference, n x (n+1)."""
    return sp.diags([-np.ones(n), np.ones(n)], [0, 1], shape=(n, n+1),
                    format='csr')


def _I(n):
    return sp.identity(n, format='csr')


def _kron3(az, ay, ax):
    return sp.kron(az, sp.kron(ay, ax, format='csr'), format='csr')


def shapes(n):
    nx, ny, nz = n
    return ((nx, ny+1, nz+1), (nx+1, ny, nz+1), (nx+1, ny+1, nz))


def nedges(n):
    return [int(np.prod(s)) for s in shapes(n)]


def curl_incidence(n):
    """Topological curl C (faces x edges), entries in {-1, 0, 1}."""
    nx, ny, nz = n
    # face x (nx+1, ny, nz): d(ez)/dy - d(ey)/dz
    cx = [None,
          -_kron3(_D(nz), _I(ny), _I(nx+1)),
          _kron3(_I(nz), _D(ny), _I(nx+1))]
    # face y (nx, ny+1, nz): d(ex)/dz - d(ez)/dx
    cy = [_kron3(_D(nz), _I(ny+1), _I(nx)),
          None,
          -_kron3(_I(nz), _I(ny+1), _D(nx))]
    # face z (nx, ny, nz+1): d(ey)/dx - d(ex)/dy
    cz = [-_kron3(_I(nz+1), _D(ny), _I(nx)),
          _kron3(_I(nz+1), _I(ny), _D(nx)),
          None]
    return sp.bmat([cx, cy, cz], format='csr')


def _bc(a, axis, shape):
    """Broadcast the 1-D array a along axis to shape, ravel F."""
    sh = [1, 1, 1]
    sh[axis] = len(a)
    return np.broadcast_to(np.reshape(a, sh), shape)


def edge_lengths(h):
    n = [len(x) for x in h]
    out = []
    for d, s in enumerate(shapes(n)):
        out.append(_bc(h[d], d, s).ravel('F'))
    return np.concatenate(out)


def fshapes(n):
    nx, ny, nz = n
    return ((nx+1, ny, nz), (nx, ny+1, nz), (nx, ny, nz+1))


def face_areas(h):
    n = [len(x) for x in h]
    out = []
    for d, s in enumerate(fshapes(n)):
        o = [i for i in range(3) if i != d]
        a = _bc(h[o[0]], o[0], s) * _bc(h[o[1]], o[1], s)
        out.append(a.ravel('F'))
    return np.concatenate(out)


def _avg_to_nodes(c, axis):
    """Average (sum/2) of the two cells sharing a node plane along axis;
    boundary planes get the single neighbour (value irrelevant: PEC)."""
    pad = [(0, 0)]*3
    pad[axis] = (1, 1)
    p = np.pad(c, pad, mode='edge')
    sl0 = [slice(None)]*3
    sl1 = [slice(None)]*3
    sl0[axis] = slice(0, -1)
    sl1[axis] = slice(1, None)
    return 0.5*(p[tuple(sl0)] + p[tuple(sl1)])


def cell_volumes(h):
    return (h[0][:, None, None]*h[1][None, :, None]*h[2][None, None, :])


def face_mass(h, mu_r=None):
    """Mf: two-cell average of V/mu_r on every face."""
    vol = cell_volumes(h)
    z = vol if mu_r is None else vol/mu_r
    return np.concatenate([_avg_to_nodes(z, d).ravel('F') for d in range(3)])


def edge_mass(h, sig, s, eps_r=None):
    """Me: four-cell average of V (sigma_d + s eps0 eps_r) on every edge.

    sig = (sig_x, sig_y, sig_z) cell arrays."""
    vol = cell_volumes(h)
    out = []
    for d in range(3):
        c = sig[d]
        if eps_r is not None:
            c = c + s*epsilon_0*eps_r
        c = vol*c
        for o in range(3):
            if o != d:
                c = _avg_to_nodes(c, o)
        out.append(c.ravel('F'))
    return np.concatenate(out)


def interior_mask(n):
    """True for edges that are not tangential-boundary edges."""
    out = []
    for d, s in enumerate(shapes(n)):
        m = np.ones(s, dtype=bool)
        for o in range(3):
            if o != d:
                sl = [slice(None)]*3
                sl[o] = 0
                m[tuple(sl)] = False
                sl[o] = -1
                m[tuple(sl)] = False
        out.append(m.ravel('F'))
    return np.concatenate(out)


def assemble(h, sig, s, mu_r=None, eps_r=None, parts=False):
    """Reference operator A (sparse, all edges; only the interior block is
    meaningful).  h: three width arrays; sig: (sx, sy, sz) conductivities;
    s: Laplace parameter (complex i*omega or real)."""
    h = [np.asarray(x, dtype=float) for x in h]
    n = [len(x) for x in h]
    C = curl_incidence(n)
    Cv = sp.diags(1.0/face_areas(h)) @ C @ sp.diags(edge_lengths(h))
    K = (Cv.T @ sp.diags(face_mass(h, mu_r)) @ Cv).tocsr()
    Me = edge_mass(h, sig, s, eps_r)
    M = sp.diags(s*mu_0*Me)
    if parts:
        return K, M
    return (K + M).tocsr()


def gradient_matrix(h):
    """Discrete gradient acting on node values -> edge values."""
    n = [len(x) for x in h]
    nx, ny, nz = n
    gx = _kron3(_I(nz+1), _I(ny+1), _D(nx))
    gy = _kron3(_I(nz+1), _D(ny), _I(nx+1))
    gz = _kron3(_D(nz), _I(ny+1), _I(nx+1))
    G = sp.vstack([gx, gy, gz], format='csr')
    return sp.diags(1.0/edge_lengths(h)) @ G


def interior_nodes(n):
    nx, ny, nz = n
    m = np.zeros((nx+1, ny+1, nz+1), dtype=bool)
    m[1:-1, 1:-1, 1:-1] = True
    return m.ravel('F')


# --------------------------------------------------------------------------
# Binding to emg3d objects (model -> conductivities), used by several checks.

def model_sigmas(model):
    """Conductivities (sx, sy, sz) of an emg3d Model, by its case."""
    bx = model.map.backward(model.property_x)
    by = bx if model.property_y is None else model.map.backward(
        model.property_y)
    bz = bx if model.property_z is None else model.map.backward(
        model.property_z)
    return bx, by, bz


def assemble_for(model, sval, parts=False):
    g = model.grid
    return assemble(g.h, model_sigmas(model), sval, model.mu_r,
                    model.epsilon_r, parts=parts)


def solve_direct(A, rhs, n):
    """Solve the interior system exactly; zeros on boundary edges."""
    import scipy.sparse.linalg as spl
    m = interior_mask(n)
    idx = np.flatnonzero(m)
    Ai = A[idx][:, idx].tocsc()
    x = np.zeros(A.shape[0], dtype=np.result_type(A.dtype, rhs.dtype))
    x[idx] = spl.splu(Ai).solve(np.asarray(rhs)[idx].astype(x.dtype))
    return x
