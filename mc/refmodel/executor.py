"""Virtual process pool + scheduler (engine E3).

Model of concurrent.futures.ProcessPoolExecutor: k workers; tasks start in
submission order; ANY running task may complete next (that is the scheduler's
choice); arguments are pickled at submit and results pickled at completion
(process isolation); a task's function runs when the scheduler completes it.
``Future.result()`` advances the schedule until that future is done, so the
stock ``Executor.map`` (used by emg3d and by tqdm's process_map) runs
unmodified on top of ``submit``.
"""
import concurrent.futures as cf
import contextlib
import pickle


class Scheduler:
    """Replays a prefix of choices, then takes choice 0; records every choice
    point (number of enabled alternatives) for the DFS driver."""

    def __init__(self, prefix=()):
        self.prefix = list(prefix)
        self.points = []     # [(n_enabled, chosen, call_index)]
        self.calls = 0       # pools created so far (one per process_map)
        self.orders = []     # completion order per pool
        self.max_workers = []

    def choose(self, n, call):
        i = len(self.points)
        if i < len(self.prefix):
            c = self.prefix[i]
            if not 0 <= c < n:
                raise RuntimeError(
                    f'replay divergence at choice point {i}: choice {c} not '
                    f'in range({n})')
        else:
            c = 0
        self.points.append((n, c, call))
        return c


class VFuture(cf.Future):
    def __init__(self, pool, idx):
        super().__init__()
        self._pool, self._idx = pool, idx

    def result(self, timeout=None):
        while not self.done():
            self._pool._advance()
        return super().result(0)

    def exception(self, timeout=None):
        while not self.done():
            self._pool._advance()
        return super().exception(0)


SCHED = None   # the scheduler of the current execution (set by `virtual`)


class VirtualPool(cf.Executor):

    def __init__(self, max_workers=None, initializer=None, initargs=(),
                 **kwargs):
        self.k = max_workers or 1
        self.sched = SCHED
        self.call = self.sched.calls
        self.sched.calls += 1
        self.sched.orders.append([])
        self.sched.max_workers.append(self.k)
        self.tasks = []      # (fn, pickled args, future)
        self.done = set()
        if initializer is not None:
            initializer(*initargs)

    def submit(self, fn, /, *args, **kwargs):
        fut = VFuture(self, len(self.tasks))
        self.tasks.append((fn, pickle.dumps((args, kwargs)), fut))
        return fut

    def _running(self):
        """Started and not completed: the first k unfinished in submission
        order (workers pick tasks up in submission order)."""
        return [i for i in range(len(self.tasks)) if i not in self.done
                ][:self.k]

    def _advance(self):
        run = self._running()
        if not run:
            raise RuntimeError('virtual pool: result() of an unknown task')
        c = self.sched.choose(len(run), self.call) if len(run) > 1 else 0
        i = run[c]
        fn, pargs, fut = self.tasks[i]
        args, kwargs = pickle.loads(pargs)
        if not fut.set_running_or_notify_cancel():
            # cancelled (Executor.map cancels pending tasks after an error)
            self.done.add(i)
            self.sched.orders[self.call].append(i)
            return
        try:
            res = pickle.loads(pickle.dumps(fn(*args, **kwargs)))
        except BaseException as e:  # noqa
            fut.set_exception(e)
        else:
            fut.set_result(res)
        self.done.add(i)
        self.sched.orders[self.call].append(i)

    def shutdown(self, wait=True, *, cancel_futures=False):
        while wait and len(self.done) < len(self.tasks):
            self._advance()


def v_as_completed(fs, timeout=None):
    fs = list(fs)
    pending = [f for f in fs if not f.done()]
    for f in fs:
        if f.done():
            yield f
    while pending:
        pool = pending[0]._pool
        pool._advance()
        for f in list(pending):
            if f.done():
                pending.remove(f)
                yield f


def v_wait(fs, timeout=None, return_when=cf.ALL_COMPLETED):
    fs = set(fs)
    for f in fs:
        while not f.done():
            f._pool._advance()
            if return_when == cf.FIRST_COMPLETED and any(
                    g.done() for g in fs):
                break
        if return_when == cf.FIRST_COMPLETED and any(g.done() for g in fs):
            break
    done = {f for f in fs if f.done()}
    return cf._base.DoneAndNotDoneFutures(done, fs - done)


@contextlib.contextmanager
def virtual(prefix=(), tqdm_backend=True):
    """Install the virtual pool for one execution; yields the scheduler."""
    global SCHED
    import concurrent.futures.process as cfp
    import emg3d._multiprocessing as mp_
    sched = Scheduler(prefix)
    SCHED = sched
    saved = [(cf, 'ProcessPoolExecutor', cf.ProcessPoolExecutor),
             (cfp, 'ProcessPoolExecutor', cfp.ProcessPoolExecutor),
             (mp_, 'ProcessPoolExecutor', mp_.ProcessPoolExecutor),
             (cf, 'as_completed', cf.as_completed),
             (cf, 'wait', cf.wait),
             (mp_, 'tqdm', mp_.tqdm)]
    try:
        cf.ProcessPoolExecutor = VirtualPool
        cfp.ProcessPoolExecutor = VirtualPool
        mp_.ProcessPoolExecutor = VirtualPool
        cf.as_completed = v_as_completed
        cf.wait = v_wait
        if not tqdm_backend:
            mp_.tqdm = None
        yield sched
    finally:
        for mod, name, val in saved:
            setattr(mod, name, val)
        SCHED = None


def explore(run, bound=None, max_schedules=None):
    """Stateless DFS over schedules: run(prefix) -> scheduler after a complete
    execution.  Yields (choices, scheduler, result) for every schedule.

    ``bound``: maximum number of non-default choices (deviations)."""
    stack = [[]]
    n = 0
    while stack:
        prefix = stack.pop()
        sched, result = run(prefix)
        choices = [c for _, c, _ in sched.points]
        if choices[:len(prefix)] != list(prefix):
            raise RuntimeError('replay divergence')
        n += 1
        yield choices, sched, result
        if max_schedules and n >= max_schedules:
            return
        for i in range(len(sched.points) - 1, len(prefix) - 1, -1):
            nen = sched.points[i][0]
            dev = sum(1 for c in choices[:i] if c != 0)
            if bound is not None and dev + 1 > bound:
                continue
            for alt in range(nen - 1, 0, -1):
                stack.append(choices[:i] + [alt])
