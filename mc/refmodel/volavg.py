"""Reference volume averaging between tensor grids: exact overlap integrals,
nearest fill outside.  Written from the node coordinates only; shares no code
with emg3d.maps / discretize.

The source function is piecewise constant on the old cells and is continued
outside the old grid by the nearest cell (per direction, i.e. the first and
the last old cell are extended to -inf / +inf).  The new value of a cell is
the mean of that function over the cell:

    F1[o, i] = | new cell o  intersected with  extended old cell i | / | new cell o |

and in 3-D  F = Fz (x) Fy (x) Fx  (Kronecker, x fastest: Fortran ravel).
"""
import numpy as np


def weights_1d(x_old, x_new):
    """Dense (n_new x n_old) averaging matrix in one direction."""
    x_old = np.asarray(x_old, dtype=float)
    x_new = np.asarray(x_new, dtype=float)
    a = x_old[:-1].copy()
    b = x_old[1:].copy()
    a[0] = -np.inf
    b[-1] = np.inf
    lo = np.maximum(x_new[:-1, None], a[None, :])
    hi = np.minimum(x_new[1:, None], b[None, :])
    w = np.clip(hi - lo, 0.0, None)
    return w/np.diff(x_new)[:, None]


def weights_1d_union(x_old, x_new):
    """Same matrix, second formulation: walk the union lattice, attribute
    every piece inside the new grid to the old cell holding its midpoint
    (clamped to the first / last cell)."""
    x_old = np.asarray(x_old, dtype=float)
    x_new = np.asarray(x_new, dtype=float)
    xs = np.union1d(x_old, x_new)
    F = np.zeros((x_new.size-1, x_old.size-1))
    for l, r in zip(xs[:-1], xs[1:]):
        mid = 0.5*(l + r)
        if mid < x_new[0] or mid > x_new[-1]:
            continue
        o = int(np.searchsorted(x_new, mid, side='right')) - 1
        o = min(max(o, 0), x_new.size-2)
        i = int(np.searchsorted(x_old, mid, side='right')) - 1
        i = min(max(i, 0), x_old.size-2)
        F[o, i] += r - l
    return F/np.diff(x_new)[:, None]


def weights_3d(old_nodes, new_nodes):
    """The three 1-D matrices (Fx, Fy, Fz) of a 3-D pair."""
    return tuple(weights_1d(o, n) for o, n in zip(old_nodes, new_nodes))


def matrix_3d(old_nodes, new_nodes, w=None):
    """Dense F (n_new_cells x n_old_cells), Fortran cell ordering."""
    fx, fy, fz = w or weights_3d(old_nodes, new_nodes)
    return np.kron(fz, np.kron(fy, fx))


def apply_3d(old_nodes, new_nodes, values, w=None):
    """F applied to a cell array of the old grid (no dense 3-D matrix)."""
    fx, fy, fz = w or weights_3d(old_nodes, new_nodes)
    return np.einsum('ai,bj,ck,ijk->abc', fx, fy, fz, values)


def volumes(nodes):
    hx, hy, hz = (np.diff(np.asarray(n, dtype=float)) for n in nodes)
    return hx[:, None, None]*hy[None, :, None]*hz[None, None, :]


def relation(x_old, x_new):
    """Classify a 1-D pair: equal / same-extent / inside / overhang /
    disjoint (new grid relative to the old one)."""
    x_old = np.asarray(x_old)
    x_new = np.asarray(x_new)
    if x_old.size == x_new.size and np.array_equal(x_old, x_new):
        return 'equal'
    if x_new[0] == x_old[0] and x_new[-1] == x_old[-1]:
        return 'same-extent'
    if x_new[0] >= x_old[0] and x_new[-1] <= x_old[-1]:
        return 'inside'
    if x_new[-1] <= x_old[0] or x_new[0] >= x_old[-1]:
        return 'disjoint'
    return 'overhang'


def selftest():
    """The two formulations agree on every pair of subsets of {0..4}."""
    import itertools
    pts = range(5)
    sets = [np.array(s, dtype=float) for r in range(2, 6)
            for s in itertools.combinations(pts, r)]
    for a in sets:
        for b in sets:
            f1 = weights_1d(a*0.7 - 1.3, b*0.7 - 1.3)
            f2 = weights_1d_union(a*0.7 - 1.3, b*0.7 - 1.3)
            assert np.abs(f1 - f2).max() <= 1e-14, (a, b)
            assert np.abs(f1.sum(1) - 1).max() <= 1e-14
    return len(sets)**2
