"""Reference model of emg3d's multigrid control skeleton, written from the
documentation (solve() docstring, [Muld06]/[Muld07] conventions):

* a direction is halved iff its cell count is even, larger than two and not
  blocked by the semicoarsening digit (digit d in 1..3 blocks direction d-1);
* the coarsest level of a cycle is min(user limit, max over unblocked
  directions of the number of admissible halvings);
* visit order from the textbook recursion  V -> [V],  W -> [W, W],
  F -> [F, V];
* line relaxation along a direction with two cells is dropped;
* semicoarsening / line-relaxation digits advance cyclically, once per
  fine-grid cycle;
* termination: converged / diverged / stagnated / maximum iterations.
"""

ITERS = {'V': ['V'], 'W': ['W', 'W'], 'F': ['F', 'V']}
LR_DIRS = {0: (), 1: (0,), 2: (1,), 3: (2,), 4: (1, 2), 5: (0, 2), 6: (0, 1),
           7: (0, 1, 2)}
KERNEL = ('gauss_seidel_x', 'gauss_seidel_y', 'gauss_seidel_z')


def halvings(n):
    k = 0
    while n % 2 == 0 and n > 2:
        n //= 2
        k += 1
    return k


def pattern(value, default, maxdigit):
    """Digit pattern of a semicoarsening / linerelaxation argument."""
    if value is True:
        return list(default)
    if value is False:
        return [0]
    return [int(ch) for ch in str(abs(int(value)))]


def coarsen(shape, sc):
    return tuple(n//2 if (n % 2 == 0 and n > 2 and sc != d+1) else n
                 for d, n in enumerate(shape))


def sc_pattern_code(shape, sc):
    """emg3d's code for 'which directions are coarsened' (0: all; 1,2,3: all
    but x,y,z; 4,5,6: only x,y,z)."""
    co = tuple(n % 2 == 0 and n > 2 and sc != d+1
               for d, n in enumerate(shape))
    return {(True, True, True): 0, (False, True, True): 1,
            (True, False, True): 2, (True, True, False): 3,
            (True, False, False): 4, (False, True, False): 5,
            (False, False, True): 6}.get(co)


def depth(shape, sc, clevel):
    d = max(halvings(n) for i, n in enumerate(shape) if sc != i+1)
    return d if clevel < 0 else min(d, clevel)


def level_shapes(shape, sc, clevel):
    out = [tuple(shape)]
    for _ in range(depth(shape, sc, clevel)):
        out.append(coarsen(out[-1], sc))
    return out


def smoothing_calls(shape, lr, nu):
    dirs = [d for d in LR_DIRS[lr] if shape[d] > 2]
    if not dirs:
        return [('gauss_seidel', tuple(shape), nu)]
    return [(KERNEL[d], tuple(shape), nu) for d in dirs]


def cycle(shape, kind, sc, lr, clevel, nu_pre, nu_coarse, nu_post):
    """Events of one fine-grid cycle.

    Returns (events, kernels, transfers, levels) with
    events  = [(level, shape, phase, cycmax)], phase in
              pre-smoothing / coarsest level / post-smoothing,
    kernels = [(kernel, shape, nu)], transfers = [('R'|'P', fine, coarse)],
    levels  = level sequence as recorded for the QC figure."""
    shapes = level_shapes(shape, sc, clevel)
    dep = len(shapes) - 1
    ev, ker, tr, lv = [], [], [], []

    def visit(level, kinds):
        lv.append(level)
        sh = shapes[level]
        if level == dep:
            ev.append((level, sh, 'coarsest level', 1))
            ker.extend(smoothing_calls(sh, lr, nu_coarse))
            return
        cm = len(kinds)
        for sub in kinds:
            if nu_pre > 0:
                ev.append((level, sh, 'pre-smoothing', cm))
                ker.extend(smoothing_calls(sh, lr, nu_pre))
            tr.append(('R', sh, shapes[level+1], sc_pattern_code(sh, sc)))
            visit(level+1, ITERS[sub])
            tr.append(('P', sh, shapes[level+1], sc_pattern_code(sh, sc)))
            lv.append(level)
            if nu_post > 0:
                ev.append((level, sh, 'post-smoothing', cm))
                ker.extend(smoothing_calls(sh, lr, nu_post))

    # fine level: one iteration per cycle; its sub-cycle is of the cycle's
    # own kind; the cycmax column shows len(ITERS[kind]) on non-coarsest
    # levels of kind F/W and 1 for V.
    lv.append(0)
    sh = shapes[0]
    if dep == 0:
        ev.append((0, sh, 'coarsest level', 1))
        ker.extend(smoothing_calls(sh, lr, nu_coarse))
    else:
        cm = len(ITERS[kind])
        if nu_pre > 0:
            ev.append((0, sh, 'pre-smoothing', cm))
            ker.extend(smoothing_calls(sh, lr, nu_pre))
        tr.append(('R', sh, shapes[1], sc_pattern_code(sh, sc)))
        visit(1, ITERS[kind])
        tr.append(('P', sh, shapes[1], sc_pattern_code(sh, sc)))
        lv.append(0)
        if nu_post > 0:
            ev.append((0, sh, 'post-smoothing', cm))
            ker.extend(smoothing_calls(sh, lr, nu_post))
    return ev, ker, tr, lv


def run(shape, cycle_kind='F', semicoarsening=False, linerelaxation=False,
        clevel=-1, nu_init=0, nu_pre=2, nu_coarse=1, nu_post=2, maxit=50,
        tol=1e-6, norms=None):
    """Whole stand-alone multigrid run.  norms(i) = fine-grid residual norm
    after i cycles relative to the source norm (the environment answer)."""
    scp = pattern(semicoarsening, (1, 2, 3), 3)
    lrp = pattern(linerelaxation, (4, 5, 6), 7)
    m = max(len(scp), len(lrp))
    out = {'cycles': [], 'kernels': [], 'transfers': [], 'events': [],
           'digits': [], 'levels_first': None}
    if nu_init > 0:
        out['events'].append((0, 0, tuple(shape), 'initial smoothing', None))
        out['kernels'].extend(smoothing_calls(shape, lrp[0], nu_init))
    it = 0
    while True:
        sc = scp[it % len(scp)]
        lr = lrp[it % len(lrp)]
        ev, ker, tr, lv = cycle(shape, cycle_kind, sc, lr, clevel, nu_pre,
                                nu_coarse, nu_post)
        out['events'].extend(ev)
        out['kernels'].extend(ker)
        out['transfers'].extend(tr)
        out['digits'].append((lr, sc))
        if it == 0:
            out['levels_first'] = lv
        it += 1
        n = norms(it)
        stag = norms(max(it - m, 0))
        if n < tol:
            out['message'] = 'CONVERGED'
            break
        if n > 10 or n != n or n in (float('inf'),):
            out['message'] = 'DIVERGED'
            break
        if it > 2 and n >= stag:
            out['message'] = 'STAGNATED'
            break
        if it == maxit:
            out['message'] = 'MAX. ITERATION REACHED, NOT CONVERGED'
            break
    out['it'] = it
    return out
