"""Reference model of the survey noise settings, the data weights and the
misfit (property C13).  Written from the documentation only; plain NumPy, no
xarray, nothing imported from emg3d.

* a noise setting (noise floor, relative error) is ``None`` or an array
  broadcast to the data shape; what a survey must report after an assignment
  is exactly the assigned value (broadcast);
* ``std = sqrt(nf^2 + (re |d_obs|)^2)`` unless a standard deviation was
  assigned explicitly (``None`` un-assigns it);
* ``misfit = 1/2 sum over finite observations |d_syn - d_obs|^2 / std^2``;
* a selection is the ``np.ix_`` sub-cube (optionally without the sources /
  receivers / frequencies that have no finite observation at all);
* ``add_noise`` removes data below an amplitude / outside an offset window and
  adds noise of the size of the standard deviation; it does not touch any
  noise setting.
"""
import numpy as np


def setting(value, shape):
    """Value a survey of ``shape`` has to report after ``x = value``."""
    if value is None:
        return None
    return np.array(np.broadcast_to(np.asarray(value, dtype=float), shape))


def std_formula(nf, re, dobs):
    """sqrt(nf^2 + (re |d|)^2); None if neither is defined."""
    if nf is None and re is None:
        return None
    out = np.zeros(dobs.shape)
    if nf is not None:
        out = out + np.broadcast_to(nf, dobs.shape)**2
    if re is not None:
        out = out + (np.broadcast_to(re, dobs.shape)*np.abs(dobs))**2
    return np.sqrt(out)


def std_effective(nf, re, explicit, dobs):
    """Explicitly assigned standard deviation wins over the formula."""
    if explicit is not None:
        return np.array(np.broadcast_to(explicit, dobs.shape), dtype=float)
    return std_formula(nf, re, dobs)


def misfit(dsyn, dobs, std):
    """Half the sum over finite observations of |dsyn-dobs|^2/std^2."""
    fin = np.isfinite(dobs)
    total = 0.0
    # plain loop in index order: nothing clever, nothing shared with xarray
    for i in zip(*np.nonzero(fin)):
        r = dsyn[i] - dobs[i]
        total += (r.real**2 + r.imag**2)/std[i]**2
    return 0.5*total


def subcube(a, idx):
    """a[np.ix_(...)] for per-axis index lists."""
    return np.array(a[np.ix_(*idx)])


def nonempty_indices(dobs):
    """Per axis the indices that have at least one non-NaN observation."""
    out = []
    for ax in range(3):
        other = tuple(a for a in range(3) if a != ax)
        out.append([int(i) for i in
                    np.flatnonzero(~np.isnan(dobs).all(axis=other))])
    return out


def amplitude_cut(dobs, min_amplitude):
    """Mask of data with |d_obs| < min_amplitude (None: nothing)."""
    if min_amplitude is None:
        return np.zeros(dobs.shape, dtype=bool)
    with np.errstate(invalid='ignore'):
        return np.abs(dobs) < np.broadcast_to(min_amplitude, dobs.shape)


def offset_cut(src_centers, rec_centers, rec_relative, nfreq, min_offset,
               max_offset):
    """Mask (nsrc, nrec, nfreq) of pairs closer than min_offset or farther
    than max_offset; a relative receiver sits at source centre + its own
    coordinates."""
    ns, nr = len(src_centers), len(rec_centers)
    out = np.zeros((ns, nr, nfreq), dtype=bool)
    for i, sc in enumerate(src_centers):
        for j, rc in enumerate(rec_centers):
            rabs = np.asarray(rc, float)
            if rec_relative[j]:
                rabs = rabs + np.asarray(sc, float)
            off = float(np.sqrt(np.sum((rabs - np.asarray(sc, float))**2)))
            if off < min_offset or off > max_offset:
                out[i, j, :] = True
    return out


def same(a, b, rtol=0.0):
    """NaN-aware equality of two arrays (exact, or relative to max|b|)."""
    a, b = np.asarray(a), np.asarray(b)
    if a.shape != b.shape:
        return False
    na, nb = np.isnan(a), np.isnan(b)
    if not np.array_equal(na, nb):
        return False
    if rtol == 0.0:
        return bool(np.array_equal(a[~na], b[~nb]))
    if not (~na).any():
        return True
    scale = np.abs(b[~nb])
    return bool(np.all(np.abs(a[~na] - b[~nb]) <= rtol*scale))


class RefSurvey:
    """Record of what a survey has to report: the names, every data set, and
    the *last explicitly assigned* noise floor / relative error / standard
    deviation (``None`` or arrays of the data shape)."""

    def __init__(self, names, data, nf=None, re=None, sd=None, geom=None):
        self.names = [list(n) for n in names]
        self.data = {k: np.array(v, dtype=complex) for k, v in data.items()}
        self.geom = geom or {}
        self.nf = setting(nf, self.shape)
        self.re = setting(re, self.shape)
        self.sd = setting(sd, self.shape)

    @property
    def shape(self):
        return tuple(len(n) for n in self.names)

    def snapshot(self):
        return RefSurvey(self.names, self.data, self.nf, self.re, self.sd,
                         self.geom)

    def assign(self, which, value):
        setattr(self, which, setting(value, self.shape))

    def std(self):
        return std_effective(self.nf, self.re, self.sd,
                             self.data['observed'])

    def indices(self, sources=None, receivers=None, frequencies=None):
        idx = []
        for ax, sel in enumerate((sources, receivers, frequencies)):
            if sel is None:
                idx.append(list(range(len(self.names[ax]))))
            else:
                idx.append([self.names[ax].index(n) for n in sel])
        return idx

    def take(self, idx):
        new = RefSurvey(
            [[self.names[ax][i] for i in idx[ax]] for ax in range(3)],
            {k: subcube(v, idx) for k, v in self.data.items()},
            geom=self.geom)
        for w in ('nf', 're', 'sd'):
            v = getattr(self, w)
            setattr(new, w, None if v is None else subcube(v, idx))
        return new

    def select(self, sources=None, receivers=None, frequencies=None,
               remove_empty=True):
        new = self.take(self.indices(sources, receivers, frequencies))
        obs = new.data['observed']
        if remove_empty and np.isfinite(obs).any():
            new = new.take(nonempty_indices(obs))
        return new

    def cut_mask(self, min_amplitude, min_offset, max_offset):
        """Data removed by add_noise(min_amplitude, min_offset, max_offset);
        'half_nf' = half the noise floor (nothing if there is none)."""
        obs = self.data['observed']
        if isinstance(min_amplitude, str):       # 'half_nf'
            min_amplitude = None if self.nf is None else self.nf/2.0
        mask = amplitude_cut(obs, min_amplitude)
        if max_offset is None:
            max_offset = np.inf
        if min_offset > 0 or max_offset < np.inf:
            g = self.geom
            mask = mask | offset_cut(
                [g['src'][n] for n in self.names[0]],
                [g['rec'][n][0] for n in self.names[1]],
                [g['rec'][n][1] for n in self.names[1]],
                len(self.names[2]), min_offset, max_offset)
        return mask
