"""Exact discrete reference for data, misfit, Jacobian and gradient of a
Simulation whose computational grid is the model grid.

    e = A(m)^-1 s,   d = P e,   phi = 1/2 sum_i w_i |d_i - dobs_i|^2
    dA/dsigma_{c,dir} = s mu0 * V_c/4 on the four dir-edges of cell c
    J_sigma[:, (c,dir)] = -P A^-1 (dA/dsigma_{c,dir} e)
    grad = Re( (w r)^H J ),   chain rule d sigma / d m applied analytically.

A is the reference FIT operator (validated against emg3d's by C02); source
vectors s and the sampling P (E and H receivers, relative receivers,
interpolation) are emg3d's own forward-modelling code, used as given linear
maps - the reference therefore is the exact derivative of the forward map
emg3d defines, which is what properties C07/C08 are about.

Also: the exact-solve seam (replaces emg3d.solver.solve by a sparse-LU solve of
the reference operator, honouring the same calling convention).
"""
import contextlib

import numpy as np
import scipy.sparse as sp
import scipy.sparse.linalg as spl
from scipy.constants import mu_0

from . import fit


def dsigma_dm(mapping, sigma):
    """Analytic derivative of conductivity w.r.t. the mapped parameter."""
    ln10 = np.log(10.0)
    return {
        'Conductivity': np.ones_like(sigma),
        'Resistivity': -sigma**2,
        'LgConductivity': sigma*ln10,
        'LgResistivity': -sigma*ln10,
        'LnConductivity': sigma,
        'LnResistivity': -sigma,
    }[mapping]


def edge_cell_incidence(n):
    """For each direction d: sparse (edges of direction d) x cells matrix with
    1 where the edge belongs to the cell (four edges per cell)."""
    nx, ny, nz = n
    out = []

    def avg(k):      # nodes x cells, ones for the two adjacent nodes
        return sp.diags([np.ones(k), np.ones(k)], [0, -1], shape=(k+1, k),
                        format='csr')
    eye = [sp.identity(k, format='csr') for k in n]
    A = [avg(k) for k in n]
    out.append(sp.kron(A[2], sp.kron(A[1], eye[0])).tocsr())   # x-edges
    out.append(sp.kron(A[2], sp.kron(eye[1], A[0])).tocsr())   # y-edges
    out.append(sp.kron(eye[2], sp.kron(A[1], A[0])).tocsr())   # z-edges
    return out


class Reference:
    """Reference quantities for one real Simulation (gridding='same')."""

    def __init__(self, sim):
        self.sim = sim
        model = sim.model
        self.grid = model.grid
        self.n = tuple(self.grid.shape_cells)
        self.case = model.case
        self.mapping = model.map.name
        self.sig = [np.asarray(s, dtype=float)
                    for s in fit.model_sigmas(model)]
        self.vol = fit.cell_volumes(self.grid.h).ravel('F')
        self.inc = edge_cell_incidence(self.n)
        self.ne = fit.nedges(self.n)
        self.srcfreq = list(sim._srcfreq)
        self.shape = sim.survey.shape
        self._lu = {}
        self._e = {}

    # ---- pieces
    def lu(self, fkey):
        if fkey not in self._lu:
            import emg3d
            f = self.sim.survey.frequencies[fkey]
            sval = emg3d.Field(self.grid, frequency=f).sval
            A = fit.assemble(self.grid.h, self.sig, complex(sval),
                             self.sim.model.mu_r, self.sim.model.epsilon_r)
            idx = np.flatnonzero(fit.interior_mask(self.n))
            self._lu[fkey] = (spl.splu(A[idx][:, idx].tocsc()), idx,
                              complex(sval))
        return self._lu[fkey]

    def solve(self, fkey, rhs):
        lu, idx, _ = self.lu(fkey)
        rhs = np.asarray(rhs, dtype=complex)
        x = np.zeros(rhs.shape, dtype=complex)
        x[idx] = lu.solve(np.ascontiguousarray(rhs[idx]))
        return x

    def efield(self, src, fkey):
        import emg3d
        if (src, fkey) not in self._e:
            f = self.sim.survey.frequencies[fkey]
            sf = emg3d.get_source_field(self.grid,
                                        self.sim.survey.sources[src], f)
            self._e[(src, fkey)] = self.solve(fkey, np.array(sf.field))
        return self._e[(src, fkey)]

    def sample(self, src, fkey, vec):
        """Responses of all receivers for a field vector (emg3d's P)."""
        import emg3d
        f = self.sim.survey.frequencies[fkey]
        fld = emg3d.Field(self.grid, data=np.asarray(vec, dtype=complex),
                          frequency=f)
        return np.array(self.sim._get_responses(src, fkey, fld))

    # ---- products
    def data(self):
        d = np.full(self.shape, np.nan+1j*np.nan)
        sk = list(self.sim.survey.sources)
        fk = list(self.sim.survey.frequencies)
        for src, fkey in self.srcfreq:
            d[sk.index(src), :, fk.index(fkey)] = self.sample(
                src, fkey, self.efield(src, fkey))
        return d

    def weights(self):
        std = self.sim.survey.standard_deviation
        return np.asarray(std.data if hasattr(std, 'data') else std)**-2.0

    def misfit(self):
        r = self.data() - np.asarray(self.sim.survey.data.observed.data)
        w = self.weights()
        ok = np.isfinite(r)
        return float(np.sum(w[ok]*np.abs(r[ok])**2)/2), r, w

    def jacobian_sigma(self):
        """J w.r.t. (sigma_x, sigma_y, sigma_z) per cell: array of shape
        (nsrc, nrec, nfreq, 3, ncells)."""
        nc = int(np.prod(self.n))
        J = np.zeros(self.shape + (3, nc), dtype=complex)
        sk = list(self.sim.survey.sources)
        fk = list(self.sim.survey.frequencies)
        off = np.cumsum([0] + self.ne)
        for src, fkey in self.srcfreq:
            e = self.efield(src, fkey)
            _, _, sval = self.lu(fkey)
            for d in range(3):
                ed = e[off[d]:off[d+1]]
                # rhs columns: -(s mu0 V_c/4) * e on the edges of cell c
                B = sp.diags(ed) @ self.inc[d] @ sp.diags(
                    -sval*mu_0*self.vol/4.0)
                rhs = np.zeros((sum(self.ne), nc), dtype=complex)
                rhs[off[d]:off[d+1], :] = B.toarray()
                de = self.solve(fkey, rhs)
                for c in range(nc):
                    J[sk.index(src), :, fk.index(fkey), d, c] = self.sample(
                        src, fkey, de[:, c])
        return J

    def jacobian(self):
        """J w.r.t. the model parameters in the model's own parametrisation,
        shape (nsrc, nrec, nfreq, nblocks, ncells); blocks follow emg3d's
        gradient layout (iso: 1; VTI: [h, v]; HTI: [x, y]; triaxial: 3)."""
        Js = self.jacobian_sigma()
        ch = [dsigma_dm(self.mapping, s.ravel('F')) for s in self.sig]
        Jx, Jy, Jz = (Js[..., d, :]*ch[d] for d in range(3))
        if self.case == 'isotropic':
            blocks = [Jx + Jy + Jz]
        elif self.case == 'VTI':
            blocks = [Jx + Jy, Jz]
        elif self.case == 'HTI':
            blocks = [Jx + Jz, Jy]
        else:
            blocks = [Jx, Jy, Jz]
        return np.stack(blocks, axis=-2)

    def gradient(self, J=None):
        J = self.jacobian() if J is None else J
        phi, r, w = self.misfit()
        wr = np.where(np.isfinite(r), w*r, 0.0)
        Jf = np.where(np.isfinite(J), J, 0.0)
        g = np.real(np.einsum('srf,srfbc->bc', np.conj(wr), Jf))
        nb = g.shape[0]
        g = g.reshape((nb,) + self.n, order='F')
        return g[0] if nb == 1 else g


# ------------------------------------------------------------ exact solve --

def exact_solve(model, sfield, sslsolver=True, semicoarsening=True,
                linerelaxation=True, verb=0, **kwargs):
    """Drop-in for emg3d.solver.solve: direct solve of the reference system."""
    import emg3d
    efield = kwargs.pop('efield', None)
    return_info = kwargs.pop('return_info', False)
    always_return = kwargs.pop('always_return', False)
    n = tuple(model.grid.shape_cells)
    rhs = np.array(sfield.field)
    x = _cached_solve(model, complex(sfield.sval), rhs, n)
    do_return = efield is None or always_return
    if efield is None:
        efield = emg3d.Field(model.grid, dtype=sfield.field.dtype,
                             frequency=sfield._frequency)
    efield.field[:] = x
    snorm = float(np.linalg.norm(rhs))
    info = {'exit': 0, 'exit_message': 'CONVERGED', 'abs_error': 0.0,
            'rel_error': 0.0, 'ref_error': snorm,
            'tol': kwargs.get('tol', 1e-6), 'it_mg': 0, 'it_ssl': 0,
            'time': 0.0, 'runtime_at_cycle': np.array([0.0]),
            'error_at_cycle': np.array([snorm]), 'log': ''}
    if do_return and return_info:
        return efield, info
    if do_return:
        return efield
    if return_info:
        return info


_LU = {}


def _cached_solve(model, sval, rhs, n):
    """Direct solve with the factorisation cached per (grid, model, s)."""
    import hashlib
    hh = hashlib.sha1()
    for x in list(model.grid.h) + [model.property_x, model.property_y,
                                   model.property_z, model.mu_r,
                                   model.epsilon_r]:
        hh.update(b'-' if x is None else np.ascontiguousarray(x).tobytes())
    real = np.dtype(rhs.dtype).kind != 'c'
    key = (hh.hexdigest(), model.map.name, sval, real)
    if key not in _LU:
        if len(_LU) > 12:
            _LU.clear()
        A = fit.assemble_for(model, sval)
        if real:
            A = A.real
        idx = np.flatnonzero(fit.interior_mask(n))
        _LU[key] = (spl.splu(A[idx][:, idx].tocsc()), idx)
    lu, idx = _LU[key]
    x = np.zeros(rhs.shape, dtype=rhs.dtype)
    x[idx] = lu.solve(np.ascontiguousarray(rhs[idx]))
    return x


@contextlib.contextmanager
def exact_mode():
    from emg3d import solver
    old = solver.solve
    solver.solve = exact_solve
    try:
        yield
    finally:
        solver.solve = old
